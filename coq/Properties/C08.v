(** C08 — Bounding boxes are tight and extrema are complete.
    Real instance of model/Extrema.v (kurbo's code run in exact arithmetic). Statements only.

    KNOWN FINDING C08-tiny-derivative: when the leading coefficient of a coordinate's derivative is
    sub-normal (coordinate differences below about 1e-293) the binary64 code departs from the
    real-number run these theorems are about; see [C08_pinned_extrema_scale_refuted].

    Two models of [CubicBez::extrema] are tied to the compiled crate by the bit-exact
    correspondence check on every run: the literal one, [cubic_extrema], and [cubic_extrema_lin],
    in which [solve_quadratic]'s "treat as linear equation" block is taken exactly when the leading
    coefficient of the derivative is zero — which is what binary64 does ([c2.recip()] is infinite,
    the scaled coefficients are not finite).  The real instance cannot see that block ([x/0 = 0] is
    finite), so the full-strength statements are about the [_lin] variant, and the literal model
    gets them under the guard [cubic_lead_ok] (leading coefficient non-zero, or derivative constant,
    in each coordinate), under which both coincide.  Vocabulary: spec/ExtremaSpec.v. *)
From Coq Require Import ZArith Reals List Bool Lra Sorting.Sorted Floats.
From KV Require Import Scalar RInst F64 Geom Curves Rect Path Solvers Extrema ExtremaSpec.
From KV Require Import C08_base C08_proofs C08_bbox.
Import ListNotations.
Local Open Scope R_scope.

(** ** Extrema *)

(** QuadBez::extrema: only interior zeros of x' or y'; every interior sign change (indeed every
    interior zero of a velocity that is not identically zero); ascending; at most four. *)
Theorem C08_quad_extrema_spec : forall q : QuadBez R, extrema_spec (SegQuad q) (quad_extrema q).
Proof. exact quad_extrema_spec_lemma. Qed.

Theorem C08_quad_extrema_length : forall q : QuadBez R, (length (quad_extrema q) <= 2)%nat.
Proof. exact quad_extrema_length. Qed.

(** CubicBez::extrema, through the specification of [solve_quadratic] (C15) and the sort. *)
Theorem C08_cubic_extrema_spec : forall c : CubicBez R, extrema_spec (SegCubic c) (cubic_extrema_lin c).
Proof. exact cubic_extrema_lin_spec. Qed.

(** the literal model: the same list under the guard, hence the same specification *)
Theorem C08_cubic_extrema_agree : forall c : CubicBez R,
  cubic_lead_ok c -> cubic_extrema c = cubic_extrema_lin c.
Proof. exact cubic_extrema_eq_lin. Qed.

Theorem C08_cubic_extrema_spec_guarded : forall c : CubicBez R,
  cubic_lead_ok c -> extrema_spec (SegCubic c) (cubic_extrema c).
Proof. exact (fun c => seg_extrema_spec_guarded (SegCubic c)). Qed.

(** the literal model without any guard: never reports anything but an interior zero of x' or y',
    ascending, at most four entries (the [ArrayVec<f64, 4>] cannot overflow) *)
Theorem C08_cubic_extrema_sound : forall c : CubicBez R,
  (forall t, In t (cubic_extrema c) -> 0 < t < 1 /\ (seg_vx (SegCubic c) t = 0 \/ seg_vy (SegCubic c) t = 0)) /\
  StronglySorted Rle (cubic_extrema c) /\ (length (cubic_extrema c) <= 4)%nat.
Proof. exact cubic_extrema_sound. Qed.

(** for every scalar: when the scaled coefficients are not finite, [one_coord] filters the root of
    the linear equation (the block [cubic_extrema_lin] makes explicit) *)
Theorem C08_one_coord_linear_block : forall (T : Type) (S : Scalar T) (d0 d1 d2 : T),
  (fis_finite (fmul d0 (fdiv f1 (oc_a d0 d1 d2))) &&
   fis_finite (fmul (oc_b d0 d1) (fdiv f1 (oc_a d0 d1 d2))))%bool = false ->
  cubic_one_coord d0 d1 d2 = extrema_filter (quad_linear d0 (oc_b d0 d1)).
Proof. exact one_coord_linear_generic. Qed.

(** ** Known finding C08-tiny-derivative (binary64): extrema depend on the magnitude of the polygon.
    [one_coord], run on binary64 on the derivative coefficients (3, -5, 3) * 2^-1060
    (x' = 48 (t - 1/4)(t - 3/4) * 2^-1060), reports the single parameter 0.1875 — where x' does
    not vanish — because [solve_quadratic] cannot form the reciprocal of the sub-normal leading
    coefficient and solves the linear equation instead; on the same coefficients times 2^600
    (an exact scaling that moves no root) it reports 0.25 and 0.75.  So for derivatives whose
    leading coefficient is sub-normal the compiled code departs from the real-number run the
    theorems above are about.  [cubic_one_coord_lifted] (proposed_fixes/C08-tiny-derivative.diff,
    not applied) reports 0.25 and 0.75 for both; at the real instance it reports only interior
    zeros of the same derivative ([C08_lifted_one_coord_sound]). *)
Theorem C08_pinned_extrema_scale_refuted :
  exists d0 d1 d2 : float,
    let s := 0x1p+600%float in
    @cubic_one_coord float F64 d0 d1 d2 = [0x1.8p-3%float] /\
    @cubic_one_coord float F64 (d0 * s)%float (d1 * s)%float (d2 * s)%float = [0x1p-2%float; 0x1.8p-1%float] /\
    @cubic_one_coord_lifted float F64 d0 d1 d2 = [0x1p-2%float; 0x1.8p-1%float] /\
    @cubic_one_coord_lifted float F64 (d0 * s)%float (d1 * s)%float (d2 * s)%float = [0x1p-2%float; 0x1.8p-1%float].
Proof.
  exists 0x1.8p-1059%float, (-0x1.4p-1058)%float, 0x1.8p-1059%float.
  vm_compute. repeat split; reflexivity.
Qed.

Theorem C08_lifted_one_coord_sound : forall d0 d1 d2 t : R,
  In t (cubic_one_coord_lifted d0 d1 d2) ->
  0 < t < 1 /\ poly2 d0 (oc_b d0 d1) (oc_a d0 d1 d2) t = 0.
Proof. exact one_coord_lifted_sound. Qed.

(** lines report nothing (their velocity is constant) and the PathSeg dispatch *)
Theorem C08_seg_extrema_spec : forall s : PathSeg R, extrema_spec s (seg_extrema_lin s).
Proof. exact seg_extrema_lin_spec. Qed.

Theorem C08_seg_extrema_spec_guarded : forall s : PathSeg R,
  seg_lead_ok s -> extrema_spec s (seg_extrema s).
Proof. exact seg_extrema_spec_guarded. Qed.

Theorem C08_seg_extrema_sound : forall s : PathSeg R,
  (forall t, In t (seg_extrema s) -> 0 < t < 1 /\ (seg_vx s t = 0 \/ seg_vy s t = 0)) /\
  StronglySorted Rle (seg_extrema s) /\ (length (seg_extrema s) <= 4)%nat.
Proof. exact seg_extrema_sound. Qed.

(** ** extrema_ranges *)

(** structure, for every scalar: the ranges pair each break point of 0 :: extrema with the next
    one of extrema ++ [1]; there is one more range than extrema *)
Theorem C08_extrema_ranges_structure : forall (T : Type) (S : Scalar T) (ts : list T),
  extrema_ranges ts = combine (f0 :: ts) (ts ++ [f1]) /\
  length (extrema_ranges ts) = Datatypes.S (length ts).
Proof. intros. split; [apply ranges_from_combine|apply ranges_from_length]. Qed.

(** every range lies in [0,1], is well-formed, ends at break points, and both coordinates are
    monotone on it (Simpson's rule is exact for cubics, so a sign-constant velocity suffices) *)
Theorem C08_ranges_monotone : forall (s : PathSeg R) (a b : R),
  In (a, b) (extrema_ranges (seg_extrema_lin s)) ->
  0 <= a /\ a <= b /\ b <= 1 /\
  (a = 0 \/ In a (seg_extrema_lin s)) /\ (b = 1 \/ In b (seg_extrema_lin s)) /\
  mono_on (seg_x s) a b /\ mono_on (seg_y s) a b.
Proof. exact (fun s a b => ranges_monotone_of_spec s _ a b (seg_extrema_lin_spec s)). Qed.

Theorem C08_ranges_monotone_guarded : forall (s : PathSeg R) (a b : R), seg_lead_ok s ->
  In (a, b) (extrema_ranges (seg_extrema s)) ->
  0 <= a /\ a <= b /\ b <= 1 /\ mono_on (seg_x s) a b /\ mono_on (seg_y s) a b.
Proof.
  exact (fun s a b Hok Hin =>
    match ranges_monotone_of_spec s _ a b (seg_extrema_spec_guarded s Hok) Hin with
    | conj A (conj B (conj C (conj _ (conj _ (conj D E))))) => conj A (conj B (conj C (conj D E)))
    end).
Qed.

Theorem C08_ranges_count : forall s : PathSeg R, (length (extrema_ranges (seg_extrema s)) <= 5)%nat.
Proof. exact seg_ranges_count. Qed.

(** the ranges cover [0,1] *)
Theorem C08_ranges_cover : forall (l : list R) (t : R), 0 <= t <= 1 ->
  exists a b, In (a, b) (extrema_ranges l) /\ a <= t <= b.
Proof. exact ranges_cover_unit. Qed.

(** ** Bounding box of a segment *)

(** contains every point of the segment *)
Theorem C08_bbox_contains_curve : forall (s : PathSeg R) (t : R), 0 <= t <= 1 ->
  rect_has (seg_bounding_box_lin s) (seg_eval s t).
Proof. exact seg_bbox_lin_contains. Qed.

Theorem C08_bbox_contains_curve_guarded : forall (s : PathSeg R) (t : R),
  seg_lead_ok s -> 0 <= t <= 1 -> rect_has (seg_bounding_box s) (seg_eval s t).
Proof. exact seg_bbox_contains_guarded. Qed.

(** tight: each of the four sides is touched by the curve (no guard needed for this half) *)
Theorem C08_bbox_tight : forall s : PathSeg R, touches_all_sides s (seg_bounding_box s).
Proof. exact seg_bbox_tight. Qed.

Theorem C08_bbox_tight_lin : forall s : PathSeg R, touches_all_sides s (seg_bounding_box_lin s).
Proof. exact seg_bbox_lin_tight. Qed.

(** hence it is the smallest rectangle containing the curve *)
Theorem C08_bbox_minimal : forall (s : PathSeg R) (r : Rect R),
  (forall t, 0 <= t <= 1 -> rect_has r (seg_eval s t)) -> rect_within (seg_bounding_box s) r.
Proof. exact seg_bbox_minimal. Qed.

(** [Shape::bounding_box] of Line / QuadBez / CubicBez is the same function *)
Theorem C08_concrete_bounding_box : forall s : PathSeg R,
  seg_bounding_box s = match s with
                       | SegLine l => line_bounding_box l
                       | SegQuad q => quad_bounding_box q
                       | SegCubic c => cubic_bounding_box c
                       end.
Proof. exact concrete_bbox_eq. Qed.

(** convex-hull property: any rectangle containing the control points contains the curve and
    therefore the bounding box *)
Theorem C08_hull_contains_curve : forall (s : PathSeg R) (r : Rect R) (t : R), 0 <= t <= 1 ->
  (forall p, In p (seg_points s) -> rect_has r p) -> rect_has r (seg_eval s t).
Proof. exact seg_hull. Qed.

Theorem C08_control_box_contains_bbox_seg : forall (s : PathSeg R) (r : Rect R),
  (forall p, In p (seg_points s) -> rect_has r p) -> rect_within (seg_bounding_box s) r.
Proof. exact seg_bbox_within_hull. Qed.

(** ** Paths *)

(** [Segments::bounding_box] is the union of the segment boxes in order, the zero rectangle when
    there are no segments *)
Theorem C08_path_bbox_union :
  segs_bounding_box (T:=R) [] = rect_zero /\
  forall (s : PathSeg R) (l : list (PathSeg R)),
    segs_bounding_box (s :: l) = fold_left (fun b s' => rect_union b (seg_bounding_box s')) l (seg_bounding_box s).
Proof. split; [reflexivity|exact (path_box_cons (@seg_bounding_box R RS))]. Qed.

(** it is the least rectangle containing every segment box *)
Theorem C08_path_bbox_lub : forall segs : list (PathSeg R),
  (forall s, In s segs -> rect_within (seg_bounding_box s) (segs_bounding_box segs)) /\
  (segs <> [] ->
   (exists s, In s segs /\ rx0 (segs_bounding_box segs) = rx0 (seg_bounding_box s)) /\
   (exists s, In s segs /\ rx1 (segs_bounding_box segs) = rx1 (seg_bounding_box s)) /\
   (exists s, In s segs /\ ry0 (segs_bounding_box segs) = ry0 (seg_bounding_box s)) /\
   (exists s, In s segs /\ ry1 (segs_bounding_box segs) = ry1 (seg_bounding_box s))).
Proof.
  exact (fun segs => conj (path_box_upper (@seg_bounding_box R RS) segs)
                          (path_box_least (@seg_bounding_box R RS) segs)).
Qed.

(** it contains every point of every segment *)
Theorem C08_path_bbox_contains : forall (segs : list (PathSeg R)) (s : PathSeg R) (t : R),
  In s segs -> 0 <= t <= 1 -> rect_has (segs_bounding_box_lin segs) (seg_eval s t).
Proof. exact segs_bbox_lin_contains. Qed.

Theorem C08_path_bbox_agree : forall segs : list (PathSeg R),
  Forall seg_lead_ok segs -> segs_bounding_box segs = segs_bounding_box_lin segs.
Proof. exact segs_bbox_eq_lin. Qed.

(** and is tight: each side is touched by one of the segments *)
Theorem C08_path_bbox_tight : forall segs : list (PathSeg R), segs <> [] ->
  segs_touch_all_sides segs (segs_bounding_box segs) /\
  segs_touch_all_sides segs (segs_bounding_box_lin segs).
Proof.
  exact (fun segs Hne => conj (segs_touch (@seg_bounding_box R RS) segs seg_bbox_tight Hne)
                              (segs_touch (@seg_bounding_box_lin R RS) segs seg_bbox_lin_tight Hne)).
Qed.

(** [BezPath::control_box] contains every element point, every control point of every segment of
    the path, and — when the path has a segment — its bounding box.  (A path without segments,
    e.g. a lone MoveTo, has the zero rectangle as bounding box by convention; see the Example.) *)
Theorem C08_control_box_contains_points : forall (els : list (PathEl R)) (p : Point R),
  In p (path_points els) -> rect_has (control_box els) p.
Proof. exact control_box_has. Qed.

Theorem C08_control_box_contains_bbox : forall (els : list (PathEl R)) (segs : list (PathSeg R)),
  segments els = Some segs -> segs <> [] ->
  rect_within (segs_bounding_box segs) (control_box els).
Proof. exact control_box_contains_bbox. Qed.

(** ** Non-vacuity *)

(** x' = 48 (t - 1/4)(t - 3/4); y' = 12 (t - 1/2): leading coefficient zero in y *)
Definition ex_cubic : CubicBez R :=
  mkCubic (mkPoint 0 0) (mkPoint 3 (-2)) (mkPoint (-2) (-2)) (mkPoint 1 0).

Example C08_ex_cubic_extrema :
  In (1 / 4) (cubic_extrema_lin ex_cubic) /\ In (1 / 2) (cubic_extrema_lin ex_cubic) /\
  In (3 / 4) (cubic_extrema_lin ex_cubic).
Proof.
  pose proof (C08_cubic_extrema_spec ex_cubic) as Hs.
  assert (Hx : not_identically_zero (seg_vx (SegCubic ex_cubic))).
  { exists 0. destruct (cubic_vx 0 0 3 (-2) (-2) (-2) 1 0 0) as [E _]. cbv zeta in E.
    unfold ex_cubic. rewrite E. unfold poly2. rewrite oc_a_real, oc_b_real. lra. }
  assert (Hy : not_identically_zero (seg_vy (SegCubic ex_cubic))).
  { exists 0. destruct (cubic_vx 0 0 3 (-2) (-2) (-2) 1 0 0) as [_ E]. cbv zeta in E.
    unfold ex_cubic. rewrite E. unfold poly2. rewrite oc_a_real, oc_b_real. lra. }
  repeat split.
  - apply (ex_complete_zeros _ _ Hs); [lra|]. left. split; [|exact Hx].
    destruct (cubic_vx 0 0 3 (-2) (-2) (-2) 1 0 (1 / 4)) as [E _]. cbv zeta in E.
    unfold ex_cubic. rewrite E. unfold poly2. rewrite oc_a_real, oc_b_real. lra.
  - apply (ex_complete_zeros _ _ Hs); [lra|]. right. split; [|exact Hy].
    destruct (cubic_vx 0 0 3 (-2) (-2) (-2) 1 0 (1 / 2)) as [_ E]. cbv zeta in E.
    unfold ex_cubic. rewrite E. unfold poly2. rewrite oc_a_real, oc_b_real. lra.
  - apply (ex_complete_zeros _ _ Hs); [lra|]. left. split; [|exact Hx].
    destruct (cubic_vx 0 0 3 (-2) (-2) (-2) 1 0 (3 / 4)) as [E _]. cbv zeta in E.
    unfold ex_cubic. rewrite E. unfold poly2. rewrite oc_a_real, oc_b_real. lra.
Qed.

(** x' of [ex_cubic] changes sign at 1/4 in the sense of [sign_change] *)
Example C08_ex_sign_change : sign_change (seg_vx (SegCubic ex_cubic)) (1 / 4).
Proof.
  intros eps Heps.
  assert (E : forall t, seg_vx (SegCubic ex_cubic) t = 48 * ((t - 1 / 4) * (t - 3 / 4))).
  { intro t. destruct (cubic_vx 0 0 3 (-2) (-2) (-2) 1 0 t) as [E _]. cbv zeta in E.
    unfold ex_cubic. rewrite E. unfold poly2. rewrite oc_a_real, oc_b_real. field. }
  set (d := Rmin eps (1 / 4) / 2).
  assert (Hd : 0 < d /\ d < eps /\ d <= 1 / 8).
  { unfold d. pose proof (Rmin_l eps (1 / 4)). pose proof (Rmin_r eps (1 / 4)).
    assert (0 < Rmin eps (1 / 4)) by (apply Rmin_glb_lt; lra). lra. }
  exists (1 / 4 + d), (1 / 4 - d). rewrite !E.
  repeat split; try lra; nra.
Qed.

(** the guard fails for [ex_cubic] (its y velocity is linear), and holds for a generic cubic *)
Example C08_ex_guard_fails : ~ cubic_lead_ok ex_cubic.
Proof.
  intros [_ [H|H]]; simpl in H; rewrite ?oc_a_real, ?oc_b_real in H; lra.
Qed.

Definition ex_cubic2 : CubicBez R :=
  mkCubic (mkPoint 0 0) (mkPoint 3 1) (mkPoint (-2) (-1)) (mkPoint 1 0).

Example C08_ex_guard_holds : cubic_lead_ok ex_cubic2.
Proof.
  unfold cubic_lead_ok, lead_ok, ex_cubic2. cbv [c0 c1 c2 c3 px py]. rewrite !oc_a_real.
  split; left; lra.
Qed.

(** why the [_lin] variant is needed at the real instance: the literal model run over the reals
    (where 1/0 = 0 is finite) does not reach the linear block and misses the extremum of y *)
Example C08_real_instance_artifact : ~ In (1 / 2) (cubic_extrema ex_cubic).
Proof.
  unfold ex_cubic. rewrite cubic_extrema_unfold. intro Hin.
  apply (proj1 (sort_asc_In _ _)) in Hin. apply in_app_or in Hin. destruct Hin as [Hin|Hin].
  - apply one_coord_sound in Hin. destruct Hin as [_ Hg]. unfold poly2 in Hg.
    rewrite oc_a_real, oc_b_real in Hg. lra.
  - rewrite one_coord_lead0 in Hin by (rewrite oc_a_real; ring). destruct Hin.
Qed.

(** "increasing order" is weak: when x' and y' vanish at the same parameter it is reported twice
    (and [extrema_ranges] then has an empty range), so [StronglySorted Rle] is the right strength *)
Example C08_ex_duplicate_extrema :
  exists t, quad_extrema (mkQuad (mkPoint 0 0) (mkPoint 1 1) (mkPoint 0 0)) = [t; t] /\ t = 1 / 2.
Proof.
  exists (1 / 2). split; [|reflexivity].
  rewrite quad_extrema_unfold. unfold quad_one_coord.
  destruct (Reqb_spec (0 - 1 - (1 - 0)) 0) as [H|_]; [exfalso; lra|]. cbn [negb].
  replace (- (1 - 0) / (0 - 1 - (1 - 0))) with (1 / 2) by (field; lra).
  destruct (in_open01 (1 / 2)) eqn:E.
  - unfold quad_merge. destruct (Rltb_spec (1 / 2) (1 / 2)); [exfalso; lra|reflexivity].
  - exfalso. assert (H : in_open01 (1 / 2) = true) by (apply in_open01_true; lra). congruence.
Qed.

(** a path with segments, for the control-box theorem; and the convention for a lone MoveTo *)
Example C08_ex_path_segments :
  segments [MoveTo (mkPoint 0 0); CurveTo (mkPoint 3 (-2)) (mkPoint (-2) (-2)) (mkPoint 1 0)]
  = Some [SegCubic ex_cubic].
Proof. reflexivity. Qed.

Example C08_lone_moveto_convention :
  let els := [MoveTo (mkPoint 5 5)] in
  segments els = Some [] /\ path_bounding_box els = Some rect_zero /\
  control_box els = mkRect 5 5 5 5.
Proof.
  cbv zeta. split; [reflexivity|]. split; [reflexivity|].
  unfold control_box. simpl. unfold rect_from_points, rect_abs. simpl.
  rewrite Rmin_left, Rmax_left by lra. reflexivity.
Qed.
