(** C16 — SVG path text. (statements follow) *)
From KV Require Import Scalar Svg.
