(** C16 — SVG path text round-trips and parses per the path grammar.

    Model: model/Svg.v ([SvgLexer], [from_svg], [write_to], [from_svg_arc], arc.rs [append_iter])
    over byte lists, generic in the scalar.  [num_of] stands for [str::parse::<f64>] on a
    delimited token, [show] for [Display for f64], [frem] for [%]: they are universally
    quantified and what is assumed about them is a hypothesis of the statement.
    [fixed] is the code with proposed_fixes/C16-plus-sign.diff and C16-smooth-ctrl.diff,
    [pinned] the code as pinned.  Vocabulary ([number_tok], [interp], [render], [spells_ok] ...)
    in spec/SvgSpec.v.  Statements only; proofs in proofs/C16_*.v. *)
From Coq Require Import ZArith Reals List Bool Floats String.
From KV Require Import Scalar RInst F64 Geom Curves Path ShapeTypes Svg SvgNum SvgSpec
  C16_lex C16_parse C16_roundtrip C16_errors C16_refute C16_extra C16_arc C16_f64.
Import ListNotations.
Local Open Scope Z_scope.

(** * The number lexer *)

(** the token [get_number] delimits is a word of  [+-]? (d+ (. d* )? | . d+) ([eE] [+-]? d+)?
    that what follows cannot extend; it is the LONGEST prefix of the input (after white space)
    that is such a word; and conversely every such prefix is what the lexer returns *)
Theorem C16_lex_number_spec : forall s t r,
  lex_number s = Ok (t, r) <-> (skip_ws s = t ++ r /\ number_tok t /\ delim t r).
Proof. exact lex_number_iff. Qed.

Theorem C16_lex_number_longest : forall s t r, lex_number s = Ok (t, r) ->
  forall t' r', skip_ws s = t' ++ r' -> number_tok t' -> (List.length t' <= List.length t)%nat.
Proof. exact lex_number_maximal. Qed.

(** error otherwise: end of input, or no delimited word of the grammar at the head of the input
    (no digit in the mantissa, or an 'e'/'E' not followed by [+-]? digit) *)
Theorem C16_lex_number_error : forall s e, lex_number s = Err e <->
  (e = UnexpectedEof /\ skip_ws s = []) \/
  (e = Wrong /\ skip_ws s <> [] /\ ~ exists t r, skip_ws s = t ++ r /\ number_tok t /\ delim t r).
Proof. exact lex_number_err_iff. Qed.

Example C16_lex_examples :
  lex_number (txt " -1.5e-3,7") = Ok (txt "-1.5e-3", txt ",7") /\
  lex_number (txt ".5.5") = Ok (txt ".5", txt ".5") /\
  lex_number (txt "1e5e") = Ok (txt "1e5", txt "e") /\
  lex_number (txt "+7-8") = Ok (txt "+7", txt "-8") /\
  lex_number (txt "1e") = Err Wrong /\ lex_number (txt "-.") = Err Wrong /\
  lex_number (txt "  ") = Err UnexpectedEof.
Proof. vm_compute. repeat split; reflexivity. Qed.

(** * Every spelling of a command list means what the SVG specification says *)

(** For every scalar type whose + is commutative and for which 2*a = a*2 (the reals, binary64),
    every command list [cmds] over M m L l H h V v C c S s Q q T t A a Z z, and every valid
    spelling [sps] of it (letters omitted where implicit repetition allows, any white space,
    comma-wsp or nothing between arguments where the tokenisation allows, any token of the number
    grammar whose value [num_of] gives: '+' signs, leading/trailing '.', exponents): the repaired
    parser returns exactly the meaning of [cmds] — including the error when the data does not
    start with a moveto. An arc command contributes [arc_els], see [C16_arc_*]. *)
Theorem C16_svg_spellings :
  forall (T : Type) (S : Scalar T) (num_of : list Z -> option T) (frem : T -> T -> T),
  (forall a b : T, fadd a b = fadd b a) -> (forall a : T, fmul f2 a = fmul a f2) ->
  forall (cmds : list SCmd) (sps : list Spell) (tail : list Z),
  spells_ok num_of None cmds sps -> all_ws tail ->
  from_svg num_of frem fixed (render cmds sps tail) = interp frem cmds.
Proof. exact @spellings_generic. Qed.

(** at the real numbers the two algebraic hypotheses are theorems *)
Theorem C16_svg_spellings_real :
  forall (num_of : list Z -> option R) (frem : R -> R -> R)
         (cmds : list (@SCmd R)) (sps : list Spell) (tail : list Z),
  spells_ok num_of None cmds sps -> all_ws tail ->
  from_svg num_of frem fixed (render cmds sps tail) = interp frem cmds.
Proof. exact spellings_real. Qed.

(** ... and so are they on binary64 (IEEE + and * are commutative; Coq's floats have one NaN): the
    theorem holds for the executable instance as it stands, [interp] computing with the same
    floating-point operations — no rounding abstraction in between *)
Theorem C16_svg_spellings_f64 :
  forall (num_of : list Z -> option float) (frem : float -> float -> float)
         (cmds : list (@SCmd float)) (sps : list Spell) (tail : list Z),
  spells_ok num_of None cmds sps -> all_ws tail ->
  from_svg num_of frem fixed (render cmds sps tail) = interp frem cmds.
Proof. exact spellings_f64. Qed.

(** hence two spellings of the same commands yield the same path *)
Theorem C16_svg_two_spellings :
  forall (num_of : list Z -> option R) (frem : R -> R -> R) (cmds : list (@SCmd R)) sps1 sps2 t1 t2,
  spells_ok num_of None cmds sps1 -> spells_ok num_of None cmds sps2 -> all_ws t1 -> all_ws t2 ->
  from_svg num_of frem fixed (render cmds sps1 t1) = from_svg num_of frem fixed (render cmds sps2 t2).
Proof. exact two_spellings_real. Qed.

(** the drawing level: an element list written with absolute or relative commands, H/V for
    horizontal/vertical lines, S/T where the first control point is the reflected one (or the
    current point after another kind of command), Z alone where the MoveTo it implies follows —
    for every choice list [chs], the commands mean the element list *)
Theorem C16_svg_respell_drawing :
  forall (frem : R -> R -> R) (els : list (PathEl R)) (chs : list Choice),
  starts_with_move els ->
  interp frem (encode els chs) = Ok (insert_moves origin false els).
Proof. exact encode_meaning_real. Qed.

Theorem C16_svg_respell_parse :
  forall (num_of : list Z -> option R) (frem : R -> R -> R) (els : list (PathEl R)) chs sps tail,
  starts_with_move els -> spells_ok num_of None (encode els chs) sps -> all_ws tail ->
  from_svg num_of frem fixed (render (encode els chs) sps tail) = Ok (insert_moves origin false els).
Proof. exact respell_parse_real. Qed.

(** the pinned code does NOT have this property: witnesses on binary64 *)
Theorem C16_svg_spellings_plus_sign_refuted :
  exists (cmds : list (@SCmd float)) sps, spells_ok dec_parse None cmds sps /\
    from_svg dec_parse fmod pinned (render cmds sps []) <> interp fmod cmds.
Proof. exact plus_sign_refuted. Qed.
Theorem C16_svg_spellings_smooth_refuted :
  exists (cmds : list (@SCmd float)) sps, spells_ok dec_parse None cmds sps /\
    from_svg dec_parse fmod pinned (render cmds sps []) <> interp fmod cmds.
Proof. exact smooth_after_quadratic_refuted. Qed.

(** the witnesses, and what the repaired code returns for them *)
Example C16_witness_plus :
  from_svg dec_parse fmod pinned (txt "m1 1 +2 3") = Ok [MoveTo (mkPoint 1 1)%float] /\
  from_svg dec_parse fmod fixed (txt "m1 1 +2 3") = Ok [MoveTo (mkPoint 1 1)%float; LineTo (mkPoint 3 4)%float].
Proof. split; [exact plus_pinned|exact plus_fixed]. Qed.
Example C16_witness_smooth :
  from_svg dec_parse fmod pinned (txt "M0 0Q1 1 2 0S3 1 4 0") =
    Ok [MoveTo (mkPoint 0 0); QuadTo (mkPoint 1 1) (mkPoint 2 0);
        CurveTo (mkPoint 3 (-1)) (mkPoint 3 1) (mkPoint 4 0)]%float /\
  from_svg dec_parse fmod fixed (txt "M0 0Q1 1 2 0S3 1 4 0") =
    Ok [MoveTo (mkPoint 0 0); QuadTo (mkPoint 1 1) (mkPoint 2 0);
        CurveTo (mkPoint 2 0) (mkPoint 3 1) (mkPoint 4 0)]%float.
Proof. split; [exact sq_pinned|exact sq_fixed]. Qed.
Example C16_spellings_nonvacuous :
  from_svg dec_parse fmod fixed (txt "m1e1+10h+10v1E1c0 10-10,10-10 0z") =
  from_svg dec_parse fmod fixed (txt "M10,10 L20,10 L20,20 C20,30 10,30 10,20 Z").
Proof. exact (proj1 (proj2 spellings_example)). Qed.

(** * Round trip *)

(** [fin] is the set of coordinates the assumptions about printing cover (all reals; the finite
    doubles). Assumed of Rust's [Display]/[parse]: [show x] is  -? d+ (. d+)?  and parses back to x. *)
Theorem C16_svg_roundtrip_elements :
  forall (T : Type) (S : Scalar T) (num_of : list Z -> option T) (show : T -> list Z)
         (frem : T -> T -> T) (fin : T -> Prop),
  (forall a b : T, fadd a b = fadd b a) -> (forall a : T, fmul f2 a = fmul a f2) ->
  (forall x, fin x -> shown_str (show x)) -> (forall x, fin x -> num_of (show x) = Some x) ->
  forall els : list (PathEl T),
  starts_with_move els -> Forall (el_fin fin) els -> closes_followed els ->
  from_svg num_of frem fixed (write_to show els) = Ok els.
Proof. exact @roundtrip_elements. Qed.

(** without the condition on ClosePath: the same segments (scalar equality test sound, as on R) *)
Theorem C16_svg_roundtrip_segments :
  forall (T : Type) (S : Scalar T) (num_of : list Z -> option T) (show : T -> list Z)
         (frem : T -> T -> T) (fin : T -> Prop),
  (forall a b : T, fadd a b = fadd b a) -> (forall a : T, fmul f2 a = fmul a f2) ->
  (forall x, fin x -> shown_str (show x)) -> (forall x, fin x -> num_of (show x) = Some x) ->
  (forall a b : T, feqb a b = true -> a = b) ->
  forall els : list (PathEl T),
  starts_with_move els -> Forall (el_fin fin) els ->
  exists els', from_svg num_of frem fixed (write_to show els) = Ok els' /\ segments els' = segments els.
Proof. exact @roundtrip_segments. Qed.

(** binary64: under the two assumptions about Rust's printing and parsing of finite doubles, the
    element list comes back identically (as Coq terms: bit for bit) *)
Theorem C16_svg_roundtrip_elements_f64 :
  forall (num_of : list Z -> option float) (show : float -> list Z) (frem : float -> float -> float),
  (forall x, F.is_finite x = true -> shown_str (show x)) ->
  (forall x, F.is_finite x = true -> num_of (show x) = Some x) ->
  forall els : list (PathEl float),
  starts_with_move els -> Forall (el_fin (fun x => F.is_finite x = true)) els -> closes_followed els ->
  from_svg num_of frem fixed (write_to show els) = Ok els.
Proof. exact roundtrip_elements_f64. Qed.

Theorem C16_svg_roundtrip_real :
  forall (num_of : list Z -> option R) (show : R -> list Z) (frem : R -> R -> R),
  (forall x, shown_str (show x)) -> (forall x, num_of (show x) = Some x) ->
  forall els : list (PathEl R), starts_with_move els ->
  (exists els', from_svg num_of frem fixed (write_to show els) = Ok els' /\ segments els' = segments els) /\
  (closes_followed els -> from_svg num_of frem fixed (write_to show els) = Ok els).
Proof. exact roundtrip_real. Qed.

Example C16_roundtrip_nonvacuous :
  let tbl := [(0.5%float, txt "0.5"); ((-0)%float, txt "-0"); (0x1.ad7f29abcaf48p-24%float, txt "0.0000001"); (3%float, txt "3")] in
  let els := [MoveTo (mkPoint 0.5 (-0)); LineTo (mkPoint 0x1.ad7f29abcaf48p-24 3); ClosePath; MoveTo (mkPoint 3 3)]%float in
  write_to (show_tbl tbl) els = txt "M0.5,-0 L0.0000001,3 Z M3,3" /\
  from_svg dec_parse fmod fixed (write_to (show_tbl tbl) els) = Ok els.
Proof. exact roundtrip_example. Qed.

(** * Errors *)

(** a command other than moveto first: UninitializedPath (any variant of the code) *)
Theorem C16_svg_errors_uninitialized :
  forall (T : Type) (S : Scalar T) (num_of : list Z -> option T) (frem : T -> T -> T) (cfg : Cfg) s c r,
  skip_ws s = c :: r -> is_letter c = true -> c <> 109 -> c <> 77 ->
  from_svg num_of frem cfg s = Err UninitializedPath.
Proof. exact @uninitialized. Qed.

(** a letter that is no command, in a started path: UnknownCommand; a command letter followed by
    something that is not a number: the lexer's error (any variant of the code, any state) *)
Theorem C16_svg_errors_unknown_letter :
  forall (T : Type) (S : Scalar T) (num_of : list Z -> option T) (frem : T -> T -> T) (cfg : Cfg) st s c r,
  ps_started st = true -> skip_ws s = c :: r -> is_letter c = true -> decode_cmd c = None ->
  step num_of frem cfg st s = SErr (UnknownCommand c).
Proof. exact @step_unknown. Qed.
Theorem C16_svg_errors_malformed_number :
  forall (T : Type) (S : Scalar T) (num_of : list Z -> option T) (frem : T -> T -> T) (cfg : Cfg) st s c r k e,
  skip_ws s = c :: r -> is_letter c = true -> decode_cmd c = Some k -> k <> KZ ->
  (ps_started st = true \/ k = KM) -> get_number num_of r = Err e ->
  step num_of frem cfg st s = SErr e.
Proof. exact @step_bad_number. Qed.
(** ... and [get_number] fails with Wrong exactly when no token of the grammar is at the head *)
Theorem C16_svg_errors_get_number :
  forall (T : Type) (num_of : list Z -> option T) s,
  get_number num_of s = Err Wrong <->
  (skip_ws s <> [] /\ forall t r, skip_ws s = t ++ r -> number_tok t -> delim t r -> num_of t = None).
Proof. exact @get_number_wrong. Qed.

(** after any valid spelling of a non-empty command list: an unknown letter gives
    UnknownCommand, a command letter followed by a malformed number gives Wrong/UnexpectedEof *)
Theorem C16_svg_errors_after_prefix :
  forall (num_of : list Z -> option R) (frem : R -> R -> R) (cmds : list (@SCmd R)) sps w c rest,
  cmds <> [] -> spells_ok num_of None cmds sps -> (exists els, interp frem cmds = Ok els) ->
  all_ws w -> is_letter c = true -> (w = [] -> is_e c = false) ->
  (decode_cmd c = None ->
     from_svg num_of frem fixed (render cmds sps (w ++ c :: rest)) = Err (UnknownCommand c)) /\
  (forall k e, decode_cmd c = Some k -> k <> KZ -> get_number num_of rest = Err e ->
     from_svg num_of frem fixed (render cmds sps (w ++ c :: rest)) = Err e).
Proof. exact errors_after_prefix_real. Qed.

Example C16_errors_nonvacuous :
  from_svg dec_parse fmod fixed (txt "M1 1e") = Err Wrong /\ from_svg dec_parse fmod fixed (txt "M1 .") = Err Wrong /\
  from_svg dec_parse fmod fixed (txt "M1 --1") = Err Wrong /\ from_svg dec_parse fmod fixed (txt "M1 1 L") = Err UnexpectedEof /\
  from_svg dec_parse fmod fixed (txt "L1 1") = Err UninitializedPath /\
  from_svg dec_parse fmod fixed (txt "M1 1 X") = Err (UnknownCommand 88) /\
  from_svg dec_parse fmod fixed (txt "") = Ok [].
Proof. exact errors_example. Qed.

(** * Termination *)

(** every loop iteration that continues consumes at least one byte (in every state the loop can
    reach: [last_cmd] is never 'Z'/'z') ... *)
Theorem C16_svg_consumes :
  forall (T : Type) (S : Scalar T) (num_of : list Z -> option T) (frem : T -> T -> T) (cfg : Cfg)
         st s st' em r,
  lcinv st -> step num_of frem cfg st s = SNext st' em r -> (List.length r < List.length s)%nat /\ lcinv st'.
Proof. exact @step_consumes. Qed.
(** ... so the parser terminates on every byte string: the model's fuel is never exhausted *)
Theorem C16_svg_total :
  forall (T : Type) (S : Scalar T) (num_of : list Z -> option T) (frem : T -> T -> T) (cfg : Cfg) s,
  from_svg num_of frem cfg s <> Err OutOfFuel.
Proof. exact @from_svg_total. Qed.

(** * Arcs *)

(** structure of what an arc command emits (repaired code): a line to the stated end point if
    degenerate, else a non-empty run of cubics — never nothing *)
Theorem C16_arc_els_shape :
  forall (T : Type) (S : Scalar T) (frem : T -> T -> T) from to radii rot large sweep,
  arc_els frem true from to radii rot large sweep = [LineTo to] \/
  (arc_els frem true from to radii rot large sweep <> [] /\
   Forall (fun e => exists p1 p2 p3, e = CurveTo p1 p2 p3) (arc_els frem true from to radii rot large sweep)).
Proof. exact @arc_els_shape. Qed.


(** the pinned code can emit NOTHING for an arc command (release build; a debug build panics in
    [debug_assert!(sum_of_sq != 0.0)]): the path then never reaches the stated end point *)
Theorem C16_arc_degenerate_refuted :
  exists (from to radii : Point float) rot large sweep,
    arc_els fmod false from to radii rot large sweep = [] /\
    arc_els fmod true from to radii rot large sweep = [LineTo to].
Proof. exact arc_degenerate_refuted. Qed.
Example C16_witness_arc :
  from_svg dec_parse fmod pinned (txt "M0 0A1 1 0 0 0 1e-200 0") = Ok [MoveTo (mkPoint 0 0)%float] /\
  from_svg dec_parse fmod fixed (txt "M0 0A1 1 0 0 0 1e-200 0") =
    Ok [MoveTo (mkPoint 0 0); LineTo (mkPoint 0x1.87e92154ef7acp-665 0)]%float.
Proof. split; [exact arc_pinned|exact arc_fixed]. Qed.

(** In exact real arithmetic ([frem] = truncated remainder), for every arc that is not degenerate
    ([from_svg_arc] = [Some arc]): the ellipse arc starts at the current point and ends at the stated
    end point, turns in the requested direction by less than a full turn, the long way round iff
    large-arc, keeps the x-rotation, and has the requested radii scaled up by a common factor >= 1
    (F.6.6.2).  [arc_point arc t] = centre + rotated (rx cos t, ry sin t). *)
Theorem C16_arc_endpoints :
  forall (a : SvgArc) (arc : Arc R), from_svg_arc Rrem true a = Some arc ->
  arc_point arc (arc_start_angle arc) = sa_from a /\
  arc_point arc (arc_start_angle arc + arc_sweep_angle arc)%R = sa_to a /\
  (if sa_sweep a then (0 <= arc_sweep_angle arc < 2 * PI)%R else (- (2 * PI) < arc_sweep_angle arc <= 0)%R) /\
  arc_x_rotation arc = sa_x_rotation a /\
  arc_sweep_angle arc <> 0%R /\
  (if sa_large_arc a then (PI <= Rabs (arc_sweep_angle arc))%R else (Rabs (arc_sweep_angle arc) <= PI)%R) /\
  (exists s, (1 <= s)%R /\ vx (arc_radii arc) = (Rabs (vx (sa_radii a)) * s)%R /\
                          vy (arc_radii arc) = (Rabs (vy (sa_radii a)) * s)%R).
Proof. exact from_svg_arc_real. Qed.

Example C16_arc_nonvacuous :
  exists arc, from_svg_arc Rrem true (mkSvgArc (mkPoint 0 0) (mkPoint 2 0) (mkVec2 1 1) 0 false true)%R = Some arc.
Proof. exact arc_example. Qed.

(** and what an arc command appends to the path (cubics, or the line of a degenerate arc) ends at
    the stated end point, exactly *)
Theorem C16_arc_reaches_end :
  forall (from to radii : Point R) (rot : R) (large sweep : bool),
  el_end (last (arc_els Rrem true from to radii rot large sweep) ClosePath) = Some to.
Proof. exact arc_els_end. Qed.
