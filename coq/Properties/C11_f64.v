(** C11 on binary64 — "rectangles resolve boundary points with the same half-open rule as paths, so a plane
    tiled by rectangles assigns every point to exactly one tile", proved for the [F64] instance of
    [rect_winding] (model/Rect.v) and of [line_winding_inner] / [poly_winding] (spec/RayCast.v: the model of
    [PathSeg::winding_inner] summed over a closed polygon) — the functions the correspondence check executes —
    for ALL binary64 coordinates that are not NaN (infinities, subnormals, -0/+0 included). Comparisons only,
    so there is no rounding to exclude. Statements only. Vocabulary: see Properties/C20_f64.v
    ([nn], [ffin], [fle], [flt], [rect_nn], [pt_nn], [fv] = the real value of a finite binary64 number). *)
From Coq Require Import ZArith Reals List Bool Floats.
From KV Require Import Scalar RInst F64 Geom Rect RayCast F64_exact C20_f64_proofs C11_f64_proofs.
Import ListNotations.

(** the closed form is the half-open rule min <= p < max on both axes, signed by the corner order; no
    validity hypothesis for the first three parts (with a NaN coordinate [inside] is simply false) *)
Theorem C11_f64_rect_winding_half_open : forall (r : Rect pfloat) (p : Point pfloat),
  let inside := (fle (F.min (rx0 r) (rx1 r)) (px p) /\ flt (px p) (F.max (rx0 r) (rx1 r))) /\
                (fle (F.min (ry0 r) (ry1 r)) (py p) /\ flt (py p) (F.max (ry0 r) (ry1 r))) in
  (inside -> xorb (PrimFloat.ltb (rx0 r) (rx1 r)) (PrimFloat.ltb (ry0 r) (ry1 r)) = false -> rect_winding r p = 1%Z) /\
  (inside -> xorb (PrimFloat.ltb (rx0 r) (rx1 r)) (PrimFloat.ltb (ry0 r) (ry1 r)) = true -> rect_winding r p = (-1)%Z) /\
  (~ inside -> rect_winding r p = 0%Z) /\
  (rect_nn r -> pt_nn p -> F.same (rx0 r) (rx1 r) = true \/ F.same (ry0 r) (ry1 r) = true -> rect_winding r p = 0%Z).
Proof. exact f_rect_winding_half_open. Qed.

(** the same rule as paths, on binary64: the closed form equals the binary64 run of the path winding over
    the rectangle's own outline (x0,y0) (x1,y0) (x1,y1) (x0,y1), for every non-NaN rectangle and point,
    boundary points included *)
Theorem C11_f64_rect_winding_eq_path_winding : forall (r : Rect pfloat) (p : Point pfloat),
  rect_nn r -> pt_nn p -> rect_winding r p = poly_winding (rect_outline r) p.
Proof. exact f_rect_winding_eq_path_winding. Qed.

(** for finite coordinates the binary64 closed form is the EXACT answer: the real half-open ray cast
    ([poly_cast], spec/RayCast.v) and the real run of the closed form, on the exact values *)
Theorem C11_f64_rect_winding_exact : forall (r : Rect pfloat) (p : Point pfloat),
  ffin (rx0 r) -> ffin (ry0 r) -> ffin (rx1 r) -> ffin (ry1 r) -> ffin (px p) -> ffin (py p) ->
  let r' := mkRect (fv (rx0 r)) (fv (ry0 r)) (fv (rx1 r)) (fv (ry1 r)) in
  let p' := mkPoint (fv (px p)) (fv (py p)) in
  rect_winding r p = poly_cast (rect_outline r') p' /\ rect_winding r p = rect_winding r' p'.
Proof. exact f_rect_winding_exact. Qed.

Theorem C11_f64_rect_winding_corner_order : forall (x0 y0 x1 y1 : pfloat) (p : Point pfloat),
  nn x0 -> nn y0 -> nn x1 -> nn y1 -> pt_nn p ->
  let w := rect_winding (mkRect x0 y0 x1 y1) p in
  rect_winding (mkRect x1 y0 x0 y1) p = (- w)%Z /\
  rect_winding (mkRect x0 y1 x1 y0) p = (- w)%Z /\
  rect_winding (mkRect x1 y1 x0 y0) p = w.
Proof. exact f_rect_winding_corner_order. Qed.

(** a grid of rectangles sharing edges, given by cut lists sorted by [PrimFloat.leb] (which makes every cut
    non-NaN; repeated cuts and -0/+0 neighbours allowed), assigns every binary64 point of the covered
    region to exactly one tile, and points outside to none *)
Theorem C11_f64_rect_tiling : forall (xs ys : list pfloat) (p : Point pfloat),
  (forall i, (S i < length xs)%nat -> fle (nth i xs 0%float) (nth (S i) xs 0%float)) ->
  (forall j, (S j < length ys)%nat -> fle (nth j ys 0%float) (nth (S j) ys 0%float)) ->
  (2 <= length xs)%nat -> (2 <= length ys)%nat ->
  fle (nth 0 xs 0%float) (px p) /\ flt (px p) (nth (length xs - 1) xs 0%float) ->
  fle (nth 0 ys 0%float) (py p) /\ flt (py p) (nth (length ys - 1) ys 0%float) ->
  exists! ij : nat * nat,
    (S (fst ij) < length xs)%nat /\ (S (snd ij) < length ys)%nat /\
    rect_winding (mkRect (nth (fst ij) xs 0%float) (nth (snd ij) ys 0%float)
                         (nth (S (fst ij)) xs 0%float) (nth (S (snd ij)) ys 0%float)) p <> 0%Z.
Proof. exact f_rect_tiling. Qed.

Theorem C11_f64_rect_tiling_outside : forall (xs ys : list pfloat) (p : Point pfloat) i j,
  fsorted_idx xs -> fsorted_idx ys -> (S i < length xs)%nat -> (S j < length ys)%nat -> pt_nn p ->
  ~ ((fle (nth 0 xs 0%float) (px p) /\ flt (px p) (nth (length xs - 1) xs 0%float)) /\
     (fle (nth 0 ys 0%float) (py p) /\ flt (py p) (nth (length ys - 1) ys 0%float))) ->
  rect_winding (ftile xs ys i j) p = 0%Z.
Proof. exact f_rect_tiling_outside. Qed.

(** non-vacuity: a grid whose cuts include both infinities, both zeros, the smallest subnormal and the largest
    finite number is sorted; the point (0,1) belongs to the tile starting at +0 and not to the tile [-0,+0),
    and (-0,1) to the same tile; both orientations occur *)
Example C11_f64_tiling_hypotheses_satisfiable :
  fsorted_idx cuts_x /\ fsorted_idx cuts_y /\
  rect_winding (ftile cuts_x cuts_y 3 0) (mkPoint 0 1)%float = 1%Z /\
  rect_winding (ftile cuts_x cuts_y 2 0) (mkPoint 0 1)%float = 0%Z /\
  rect_winding (ftile cuts_x cuts_y 1 0) (mkPoint (-0) 1)%float = 0%Z /\
  rect_winding (ftile cuts_x cuts_y 3 0) (mkPoint (-0) 1)%float = 1%Z /\
  rect_winding (ftile cuts_x cuts_y 5 2) (mkPoint 0x1.fffffffffffffp+1023 2)%float = 1%Z /\
  rect_winding (mkRect 3 4 (-1) 0)%float (mkPoint 0 1)%float = 1%Z /\
  rect_winding (mkRect 3 0 (-1) 4)%float (mkPoint 0 1)%float = (-1)%Z.
Proof. exact tiling_witness. Qed.

(** why the orientation is stated by comparing corners: the computed area of a non-degenerate rectangle
    can be (+0) by underflow while the winding is 1 *)
Example C11_f64_area_sign_unusable :
  rect_winding (mkRect 0 0 0x1p-600 0x1p-600)%float (mkPoint 0x1p-601 0x1p-601)%float = 1%Z /\
  PrimFloat.is_zero (rect_area (mkRect 0 0 0x1p-600 0x1p-600)%float) = true.
Proof. exact area_underflow. Qed.
Example C11_f64_exact_hyps_satisfiable :
  ffin (rx0 rex) /\ ffin (ry0 rex) /\ ffin (rx1 rex) /\ ffin (ry1 rex) /\ ffin (px pex) /\ ffin (py pex) /\
  rect_winding rex pex = 1%Z /\ rect_winding rex (mkPoint 0x1.0000000000001p+1 0)%float = 0%Z.
Proof. exact exact_witness. Qed.
