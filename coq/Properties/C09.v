(** C09 — stub, replaced below *)
From Coq Require Import ZArith Reals Bool.
From KV Require Import Scalar RInst Geom Curves Nearest.
Local Open Scope R_scope.
Example C09_stub : 1 = 1. Proof. reflexivity. Qed.
