(** C09 — nearest-point queries return the true minimum distance.  Statements only.

    Real instance [RS] of the models in model/Nearest.v (line.rs 161-175, quadbez.rs 299-346,
    cubicbez.rs 672-689 with to_quads 78-97 / ToQuads::next 735-757, bezpath.rs 902-910).
    Results are pairs [(t, distance_sq)]; [None] stands for a panicking [unwrap].

    What is NOT covered by any theorem here: rounding.  The defects of the pinned tree recorded
    for this property (known findings C09-straight-cubic, C09-solver-cancellation) are binary64
    phenomena of [solve_cubic]; they are visible only to the correspondence/laws, and in
    [C09_straight_cubic_float_witness] below. *)
From Coq Require Import ZArith QArith Reals List Bool Floats.
From KV Require Import Scalar RInst F64 Geom Curves Solvers Nearest NearestSpec C09_proofs C09_closed.
Import ListNotations.
Local Open Scope R_scope.

(** * Lines (full): clamped projection, including the zero-length line *)

Theorem C09_line_nearest_min : forall (l : Line R) (p : Point R),
  let '(t, d) := line_nearest l p in
  0 <= t <= 1 /\
  pt_distance_squared p (line_eval l t) = d /\
  forall u, 0 <= u <= 1 -> d <= pt_distance_squared p (line_eval l u).
Proof. exact line_nearest_min. Qed.

(** * Quadratics *)

(** the result is always [Some]: [r_best.unwrap()] cannot panic, whatever the solver returns;
    the parameter is in [0,1] and the squared distance is that of the curve point there *)
Theorem C09_quad_nearest_total : forall (q : QuadBez R) (p : Point R) (roots : list R),
  exists t d, quad_nearest_from_roots q p roots = Some (t, d) /\ 0 <= t <= 1 /\
              d = pt_distance_squared (quad_eval q t) p.
Proof. exact quad_nearest_total. Qed.

(** the [need_ends] case analysis: for a quadratic that is not degree-degenerate (k3 = |p0-2p1+p2|^2 > 0)
    and ANY list containing every real root of k0 + k1 x + k2 x^2 + k3 x^3 (extra entries allowed),
    the code after the solver call returns the minimum over [0,1] and a parameter attaining it *)
Theorem C09_quad_nearest_from_roots_min : forall (q : QuadBez R) (p : Point R) (roots : list R),
  let '(k0, k1, k2, k3) := quad_nearest_coeffs q p in
  0 < k3 ->
  (forall x, k0 + k1 * x + k2 * (x * x) + k3 * (x * x * x) = 0 -> In x roots) ->
  exists t d, quad_nearest_from_roots q p roots = Some (t, d) /\
    0 <= t <= 1 /\ pt_distance_squared (quad_eval q t) p = d /\
    forall u, 0 <= u <= 1 -> d <= pt_distance_squared (quad_eval q u) p.
Proof.
  intros q p roots. pose proof (quad_nearest_from_roots_min q p roots) as H.
  destruct (quad_nearest_coeffs q p) as [[[k0 k1] k2] k3]. exact H.
Qed.

(** FULL, given a root-complete solver: for every quadratic (loops of the control polygon,
    collinear, degree-degenerate, a single point) and every point, [nearest] over a solver that
    lists every real root of every not identically vanishing polynomial of degree <= 3 returns the
    minimum of |p - q(u)|^2 over [0,1] and a parameter in [0,1] attaining it *)
Theorem C09_quad_nearest_min : forall solver : R -> R -> R -> R -> list R,
  (forall k0 k1 k2 k3 x : R, (k0, k1, k2, k3) <> (0, 0, 0, 0) ->
     k0 + k1 * x + k2 * (x * x) + k3 * (x * x * x) = 0 -> In x (solver k0 k1 k2 k3)) ->
  forall (q : QuadBez R) (p : Point R),
  exists t d, quad_nearest_with solver q p = Some (t, d) /\
    0 <= t <= 1 /\ pt_distance_squared (quad_eval q t) p = d /\
    forall u, 0 <= u <= 1 -> d <= pt_distance_squared (quad_eval q u) p.
Proof. exact quad_nearest_with_min. Qed.

(** such a solver exists: [solve_cubic] with the delegations the float code takes when a leading
    coefficient vanishes (C15: solve_cubic_exact, solve_quadratic_spec_main, quad_linear_real) *)
Theorem C09_solve_cubic_ext_complete :
  forall k0 k1 k2 k3 x : R, (k0, k1, k2, k3) <> (0, 0, 0, 0) ->
    k0 + k1 * x + k2 * (x * x) + k3 * (x * x * x) = 0 -> In x (solve_cubic_ext k0 k1 k2 k3).
Proof. exact solve_cubic_ext_complete. Qed.
Theorem C09_solve_cubic_ext_is_solve_cubic : forall k0 k1 k2 k3 : R, k3 <> 0 ->
  solve_cubic_ext k0 k1 k2 k3 = solve_cubic k0 k1 k2 k3.
Proof. exact solve_cubic_ext_cubic. Qed.

(** the code's own call, [solve_cubic] of Solvers.v, with its completeness as a hypothesis.
    _partial: the degree-degenerate quadratics (p0 - 2 p1 + p2 = 0) are excluded because the real
    run of [solve_cubic] does not take the [1/0 = inf] delegation the compiled code takes; they are
    covered by [C09_quad_nearest_degenerate] + [C09_solve_cubic_delegates_linear] (and by
    [C09_quad_nearest_min] over [solve_cubic_ext]) *)
Section GivenSolver.
Hypothesis cubic_solver_complete : forall c0 c1 c2 c3 x : R, c3 <> 0 ->
  c0 + c1 * x + c2 * (x * x) + c3 * (x * x * x) = 0 -> In x (solve_cubic c0 c1 c2 c3).

Theorem C09_quad_nearest_min_solve_cubic_partial : forall (q : QuadBez R) (p : Point R),
  quad_d1 q <> mkVec2 0 0 ->
  exists t d, quad_nearest q p = Some (t, d) /\
    0 <= t <= 1 /\ pt_distance_squared (quad_eval q t) p = d /\
    forall u, 0 <= u <= 1 -> d <= pt_distance_squared (quad_eval q u) p.
Proof. exact (quad_nearest_min cubic_solver_complete). Qed.
End GivenSolver.

(** the same with the hypothesis discharged by C15's [solve_cubic_exact] *)
Theorem C09_quad_nearest_min_closed_partial : forall (q : QuadBez R) (p : Point R),
  quad_d1 q <> mkVec2 0 0 ->
  exists t d, quad_nearest q p = Some (t, d) /\
    0 <= t <= 1 /\ pt_distance_squared (quad_eval q t) p = d /\
    forall u, 0 <= u <= 1 -> d <= pt_distance_squared (quad_eval q u) p.
Proof. exact quad_nearest_min_closed. Qed.

(** the degree-degenerate quadratic (a uniformly parametrised line, or a point): the code path
    through the solvers' lower-degree fallbacks ends in [quad_linear k0 k1]; with those roots the
    result is the minimum *)
Theorem C09_quad_nearest_degenerate : forall (q : QuadBez R) (p : Point R),
  quad_d1 q = mkVec2 0 0 ->
  let '(k0, k1, k2, k3) := quad_nearest_coeffs q p in
  k2 = 0 /\ k3 = 0 /\
  exists t d, quad_nearest_from_roots q p (quad_linear k0 k1) = Some (t, d) /\
    0 <= t <= 1 /\ pt_distance_squared (quad_eval q t) p = d /\
    forall u, 0 <= u <= 1 -> d <= pt_distance_squared (quad_eval q u) p.
Proof.
  intros q p H. pose proof (quad_nearest_linear_min q p H) as H1. pose proof (quad_dist2_linear q p H) as H2.
  destruct (quad_nearest_coeffs q p) as [[[k0 k1] k2] k3].
  destruct H2 as (_ & _ & _ & E2 & E3). split; [exact E2|]. split; [exact E3 | exact H1].
Qed.

(** ... and that path, for every scalar: when the scaled coefficients are not all finite and the
    quadratic's scaled coefficients are not both finite, [solve_cubic] IS [quad_linear] *)
Theorem C09_solve_cubic_delegates_linear : forall (T : Type) (S : Scalar T) (c0 c1 c2 c3 : T),
  (fis_finite (c0 * (f1 / c3)) && fis_finite (c1 * (sv_third * (f1 / c3)))
     && fis_finite (c2 * (sv_third * (f1 / c3))))%S = false ->
  (negb (fis_finite (c0 * (f1 / c2))) || negb (fis_finite (c1 * (f1 / c2))))%S = true ->
  solve_cubic c0 c1 c2 c3 = quad_linear c0 c1.
Proof. exact solve_cubic_delegates_linear. Qed.

(** * Cubics *)

(** unconditional: for ANY solver (complete or not) and any piece count n >= 1 the result is [Some]
    ([best_r.unwrap()] cannot panic) and the returned parameter is in [0,1] *)
Theorem C09_cubic_nearest_total : forall (solver : R -> R -> R -> R -> list R)
  (c : CubicBez R) (p : Point R) (n : nat), (1 <= n)%nat ->
  exists t d, cubic_nearest_n_with (quad_nearest_with solver) c p n = Some (t, d) /\ 0 <= t <= 1.
Proof. exact cubic_nearest_total_any_solver. Qed.

(** FULL, given a root-complete solver and the C17 pointwise bound (a hypothesis here; C17's
    [to_quads_within_accuracy_n] proves it): for every cubic (loops, cusps, straight, degenerate),
    every point and every piece count n >= 1 such that each quadratic is within [a] of its cubic
    piece at corresponding parameters: the returned parameter is in [0,1]; sqrt(distance_sq) is at
    most [a] above the distance from p to ANY curve point; the curve point at the returned parameter
    is at most [a] farther from p than sqrt(distance_sq).  [C09_cubic_nearest_vs_minimum] restates
    this against the minimum distance: the two claims of the property. *)
Theorem C09_cubic_nearest_within_accuracy : forall solver : R -> R -> R -> R -> list R,
  (forall k0 k1 k2 k3 x : R, (k0, k1, k2, k3) <> (0, 0, 0, 0) ->
     k0 + k1 * x + k2 * (x * x) + k3 * (x * x * x) = 0 -> In x (solver k0 k1 k2 k3)) ->
  forall (c : CubicBez R) (p : Point R) (n : nat) (a : R),
  (1 <= n)%nat ->
  (* to_quads_pointwise_bound *)
  (forall (i : nat) (u : R), (i < n)%nat -> 0 <= u <= 1 ->
     let '(t0, t1, q) := nr_quads_piece c (Z.of_nat n) (Z.of_nat i) in
     pt_distance (cubic_eval c (t0 + u * (t1 - t0))) (quad_eval q u) <= a) ->
  exists t d, cubic_nearest_n_with (quad_nearest_with solver) c p n = Some (t, d) /\
    0 <= t <= 1 /\ 0 <= d /\
    (forall u, 0 <= u <= 1 -> R_sqrt.sqrt d <= pt_distance (cubic_eval c u) p + a) /\
    pt_distance (cubic_eval c t) p <= R_sqrt.sqrt d + a.
Proof. exact cubic_nearest_with_complete_solver_bounds. Qed.

Theorem C09_cubic_nearest_vs_minimum : forall solver : R -> R -> R -> R -> list R,
  (forall k0 k1 k2 k3 x : R, (k0, k1, k2, k3) <> (0, 0, 0, 0) ->
     k0 + k1 * x + k2 * (x * x) + k3 * (x * x * x) = 0 -> In x (solver k0 k1 k2 k3)) ->
  forall (c : CubicBez R) (p : Point R) (n : nat) (a : R),
  (1 <= n)%nat ->
  (forall (i : nat) (u : R), (i < n)%nat -> 0 <= u <= 1 ->
     let '(t0, t1, q) := nr_quads_piece c (Z.of_nat n) (Z.of_nat i) in
     pt_distance (cubic_eval c (t0 + u * (t1 - t0))) (quad_eval q u) <= a) ->
  exists t d, cubic_nearest_n_with (quad_nearest_with solver) c p n = Some (t, d) /\ 0 <= t <= 1 /\
    forall tm dmin : R,
      (0 <= tm <= 1 /\ pt_distance (cubic_eval c tm) p = dmin /\
       forall u, 0 <= u <= 1 -> dmin <= pt_distance (cubic_eval c u) p) ->
      Rabs (R_sqrt.sqrt d - dmin) <= a /\ pt_distance (cubic_eval c t) p <= dmin + 2 * a.
Proof. exact cubic_nearest_with_complete_solver. Qed.

(** the minimum distance is attained, so the previous statement is about something *)
Theorem C09_cubic_min_distance_attained : forall (c : CubicBez R) (p : Point R),
  exists tm, 0 <= tm <= 1 /\ forall u, 0 <= u <= 1 ->
    pt_distance (cubic_eval c tm) p <= pt_distance (cubic_eval c u) p.
Proof.
  intros c p. destruct (cubic_dist_min_exists c p) as [tm (H1 & _ & H3)]. exists tm. split; assumption.
Qed.

(** the code's own call chain ([cubic_nearest] = the loop over the count the code computes, pieces
    answered by [quad_nearest] = [solve_cubic]), hypotheses discharged by C15 and C17.
    _partial: positive accuracy, and no quadratic piece may be degree-degenerate (which excludes the
    straight cubic with controls at the thirds): on such a piece the real run of [solve_cubic] does
    not take the delegation the compiled code takes.  [C09_cubic_nearest_within_accuracy] over
    [solve_cubic_ext] has no such exclusion. *)
Theorem C09_cubic_nearest_solve_cubic_partial : forall (c : CubicBez R) (p : Point R) (a : R),
  0 < a ->
  (forall i : nat, (i < Z.to_nat (nr_quads_count c a))%nat ->
     quad_d1 (snd (nr_quads_piece c (nr_quads_count c a) (Z.of_nat i))) <> mkVec2 0 0) ->
  exists t d, cubic_nearest c p a = Some (t, d) /\ 0 <= t <= 1 /\
    forall tm dmin : R,
      (0 <= tm <= 1 /\ pt_distance (cubic_eval c tm) p = dmin /\
       forall u, 0 <= u <= 1 -> dmin <= pt_distance (cubic_eval c u) p) ->
      Rabs (R_sqrt.sqrt d - dmin) <= a /\ pt_distance (cubic_eval c t) p <= dmin + 2 * a.
Proof. exact cubic_nearest_closed. Qed.

(** * The repair proposed for the recorded defects (proposed_fixes/C09-nearest-degenerate-quad.diff)

    [quad_nearest_repaired_with]: below the rounding error of d0 = p1 - p0 the roots come from the
    quadratic solver, and every root is polished by Newton steps that only ever decrease the residual.
    Over the reals the polish leaves exact roots in place, so the theorems carry over.
    _partial: in the band 0 < |p0-2p1+p2|^2 <= 2^-104 |p1-p0|^2 the repaired code drops the cubic
    term on purpose (it is below binary64 rounding); the exact-arithmetic statement excludes it. *)
Theorem C09_quad_nearest_repaired_min_partial :
  forall (scubic : R -> R -> R -> R -> list R) (squad : R -> R -> R -> list R),
  (forall k0 k1 k2 k3 x : R, (k0, k1, k2, k3) <> (0, 0, 0, 0) ->
     k0 + k1 * x + k2 * (x * x) + k3 * (x * x * x) = 0 -> In x (scubic k0 k1 k2 k3)) ->
  (forall k0 k1 k2 x : R, (k0, k1, k2) <> (0, 0, 0) ->
     k0 + k1 * x + k2 * (x * x) = 0 -> In x (squad k0 k1 k2)) ->
  forall (q : QuadBez R) (p : Point R),
  quad_d1 q = mkVec2 0 0 \/
    Q2R (1 # 2 ^ 104) * v_hypot2 (pt_sub (q1 q) (q0 q)) < v_hypot2 (quad_d1 q) ->
  exists t d, quad_nearest_repaired_with scubic squad q p = Some (t, d) /\
    0 <= t <= 1 /\ pt_distance_squared (quad_eval q t) p = d /\
    forall u, 0 <= u <= 1 -> d <= pt_distance_squared (quad_eval q u) p.
Proof. exact quad_nearest_repaired_min. Qed.

Theorem C09_polish_keeps_exact_roots : forall k0 k1 k2 k3 t : R,
  k0 + k1 * t + k2 * (t * t) + k3 * (t * t * t) = 0 -> nr_polish_root k0 k1 k2 k3 t = t.
Proof. exact polish_root_fixed. Qed.

Theorem C09_solve_quadratic_ext_complete : forall k0 k1 k2 x : R, (k0, k1, k2) <> (0, 0, 0) ->
  k0 + k1 * x + k2 * (x * x) = 0 -> In x (solve_quadratic_ext k0 k1 k2).
Proof. exact solve_quadratic_ext_complete. Qed.

Theorem C09_cubic_nearest_repaired_partial :
  forall (scubic : R -> R -> R -> R -> list R) (squad : R -> R -> R -> list R),
  (forall k0 k1 k2 k3 x : R, (k0, k1, k2, k3) <> (0, 0, 0, 0) ->
     k0 + k1 * x + k2 * (x * x) + k3 * (x * x * x) = 0 -> In x (scubic k0 k1 k2 k3)) ->
  (forall k0 k1 k2 x : R, (k0, k1, k2) <> (0, 0, 0) ->
     k0 + k1 * x + k2 * (x * x) = 0 -> In x (squad k0 k1 k2)) ->
  forall (c : CubicBez R) (p : Point R) (n : nat) (a : R),
  (1 <= n)%nat ->
  (forall (i : nat) (u : R), (i < n)%nat -> 0 <= u <= 1 ->
     let '(t0, t1, q) := nr_quads_piece c (Z.of_nat n) (Z.of_nat i) in
     pt_distance (cubic_eval c (t0 + u * (t1 - t0))) (quad_eval q u) <= a) ->
  (forall i : nat, (i < n)%nat ->
     let q := snd (nr_quads_piece c (Z.of_nat n) (Z.of_nat i)) in
     quad_d1 q = mkVec2 0 0 \/ Q2R (1 # 2 ^ 104) * v_hypot2 (pt_sub (q1 q) (q0 q)) < v_hypot2 (quad_d1 q)) ->
  exists t d, cubic_nearest_n_with (quad_nearest_repaired_with scubic squad) c p n = Some (t, d) /\ 0 <= t <= 1 /\
    forall tm dmin : R,
      (0 <= tm <= 1 /\ pt_distance (cubic_eval c tm) p = dmin /\
       forall u, 0 <= u <= 1 -> dmin <= pt_distance (cubic_eval c u) p) ->
      Rabs (R_sqrt.sqrt d - dmin) <= a /\ pt_distance (cubic_eval c t) p <= dmin + 2 * a.
Proof. exact cubic_nearest_repaired_min. Qed.

(** * PathSeg: plain dispatch *)
Theorem C09_seg_nearest_dispatch : forall (T : Type) (S : Scalar T) (p : Point T) (a : T),
  (forall l, seg_nearest (SegLine l) p a = Some (line_nearest l p)) /\
  (forall q, seg_nearest (SegQuad q) p a = quad_nearest q p) /\
  (forall c, seg_nearest (SegCubic c) p a = cubic_nearest c p a).
Proof. intros; repeat split; reflexivity. Qed.

(** * Non-vacuity and concrete instances *)

Example C09_ex_line_interior :
  line_nearest (mkLine (mkPoint 0 0) (mkPoint 4 0)) (mkPoint 1 3) = (/ 4, 9).
Proof. exact ex_line_interior. Qed.
Example C09_ex_line_zero_length :
  line_nearest (mkLine (mkPoint 1 1) (mkPoint 1 1)) (mkPoint 4 5) = (0, 25).
Proof. exact ex_line_zero_length. Qed.

(** a quadratic meeting the guard of the _partial theorems, and one that is degree-degenerate *)
Example C09_ex_quad_nondegenerate :
  quad_d1 (mkQuad (mkPoint 0 0) (mkPoint 1 1) (mkPoint 2 0)) <> mkVec2 0 0.
Proof. exact ex_quad_nondegenerate. Qed.
Example C09_ex_quad_degenerate :
  quad_d1 (mkQuad (mkPoint 0 0) (mkPoint 1 0) (mkPoint 2 0)) = mkVec2 0 0 /\
  quad_nearest_from_roots (mkQuad (mkPoint 0 0) (mkPoint 1 0) (mkPoint 2 0)) (mkPoint (/ 2) 1)
    (quad_linear (- (/ 2)) 2) = Some (/ 4, 1).
Proof. exact ex_quad_degenerate. Qed.

(** the hypothesis of [C09_quad_nearest_min_solve_cubic_partial] holds for Solvers.v (C15) *)
Example C09_ex_solver_hypothesis : forall c0 c1 c2 c3 x : R, c3 <> 0 ->
  c0 + c1 * x + c2 * (x * x) + c3 * (x * x * x) = 0 -> In x (solve_cubic c0 c1 c2 c3).
Proof. exact cubic_solver_complete_holds. Qed.

(** binary64 run of the model on the same degenerate quadratic: both non-finiteness tests fire
    (the hypotheses of [C09_solve_cubic_delegates_linear]) and the answer is exact *)
Example C09_ex_float_degenerate_path :
  (let q : QuadBez float := mkQuad (mkPoint 0 0) (mkPoint 1 0) (mkPoint 2 0) in
  let p : Point float := mkPoint 0.5 1 in
  let '(k0, k1, k2, k3) := quad_nearest_coeffs q p in
  ((fis_finite (k0 * (f1 / k3)) && fis_finite (k1 * (sv_third * (f1 / k3)))
     && fis_finite (k2 * (sv_third * (f1 / k3))))%S = false /\
   (negb (fis_finite (k0 * (f1 / k2))) || negb (fis_finite (k1 * (f1 / k2))))%S = true /\
   quad_nearest q p = Some (0.25, 1)))%float.
Proof. exact ex_float_degenerate_path. Qed.

(** the recorded defect, on the binary64 run of the model (no theorem above speaks about it):
    a straight cubic with its controls at the thirds; [nearest] answers t = 0 with squared
    distance 76.27..., the curve point at t = 0.1448... is at squared distance 68.49... *)
Example C09_straight_cubic_float_witness :
  (let c : CubicBez float := mkCubic (mkPoint (-0x1.f3bd484ac151cp+2) (-0x1.2c4e8bd5f85cfp+2))
                   (mkPoint (-0x1.5140dcfd75c1ep+1) (-0x1.c7a716924319p-1))
                   (mkPoint 0x1.44f8d69a971fcp+1 0x1.74c98c62cf2d6p+1)
                   (mkPoint 0x1.ed9945195200cp+2 0x1.adbe6f3517908p+2) in
  let p : Point float := mkPoint (-0x1.4ec9d20f2b6d6p+3) 0x1.d06d3e399529p+1 in
  exists t d, cubic_nearest c p 0x1.0624dd2f1a9fcp-10 = Some (t, d) /\
     PrimFloat.ltb (pt_distance_squared (cubic_eval c 0x1.289006a786ae3p-3) p + 7) d = true)%float.
Proof. exact straight_cubic_float_witness. Qed.

(** ... and the binary64 run of the repaired model on the same input: t = 0.14480596233368145
    (the clamped projection on the line gives the same to 1e-15), squared distance 68.4952... *)
Example C09_straight_cubic_float_repaired :
  (let c : CubicBez float := mkCubic (mkPoint (-0x1.f3bd484ac151cp+2) (-0x1.2c4e8bd5f85cfp+2))
                   (mkPoint (-0x1.5140dcfd75c1ep+1) (-0x1.c7a716924319p-1))
                   (mkPoint 0x1.44f8d69a971fcp+1 0x1.74c98c62cf2d6p+1)
                   (mkPoint 0x1.ed9945195200cp+2 0x1.adbe6f3517908p+2) in
  let p : Point float := mkPoint (-0x1.4ec9d20f2b6d6p+3) 0x1.d06d3e399529p+1 in
  exists t d, cubic_nearest_repaired c p 0x1.0624dd2f1a9fcp-10 = Some (t, d) /\
     PrimFloat.ltb (abs (t - 0x1.289006a786ae3p-3)) 0x1p-20 = true /\
     PrimFloat.ltb d (pt_distance_squared (cubic_eval c 0x1.289006a786ae3p-3) p + 0x1p-20) = true)%float.
Proof. exact straight_cubic_float_repaired. Qed.
