(** C10 stub *)
From Coq Require Import ZArith Reals Bool List.
From KV Require Import Scalar RInst Geom Curves Rect Path ShapeTypes ShapePaths.
Import ListNotations.
Theorem C10_rect_exact : forall (r : Rect R),
  rect_path_elements r = [ MoveTo (mkPoint (rx0 r) (ry0 r)); LineTo (mkPoint (rx1 r) (ry0 r));
    LineTo (mkPoint (rx1 r) (ry1 r)); LineTo (mkPoint (rx0 r) (ry1 r)); ClosePath ].
Proof. reflexivity. Qed.
