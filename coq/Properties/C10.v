(** C10 — Shape outlines approximate the ideal shape within the tolerance.
    Statements only; every proof is [exact <lemma>] (lemmas in proofs/C10_proofs.v and, for the
    certified numeric enclosures, proofs/C10_interval.v).
    All theorems except the "verbatim" ones are about the real instance of model/ShapePaths.v, i.e.
    about kurbo's code run in exact arithmetic; binary64 rounding is outside them (the laws in
    harness/src/c10.rs test the floating-point outlines against independent oracles).
    Vocabulary (spec/OutlineSpec.v): [closed_contour]/[open_contour] (one MoveTo, first; drawing
    elements; a final ClosePath or none), [chain] (the pieces, each starting where the previous
    ended), [on_outline] (a piece evaluated at some t in [0,1]), [within tol S P] (some point of S is
    at distance <= tol from P), [on_circle], [on_ellipse], [on_arc], [on_affine_circle]. *)
From Coq Require Import ZArith Reals Bool List.
From Coquelicot Require Import Coquelicot.
From KV Require Import Scalar RInst Geom Curves Rect Affine Path ShapeTypes ShapePaths OutlineSpec
  C10_interval C10_proofs.
Import ListNotations.
Local Open Scope R_scope.

(** * Pieces joined end to end; contours *)

(** [chain] is what [Segments::next] (model/Path.v) yields for a one-contour element list: the
    pieces joined end to end, plus - for a closed contour - the closing line unless the body
    already returned to the start. *)
Theorem C10_outline_chained_open : forall els (start : Point R) body,
  open_contour els start body -> segments els = Some (chain start body).
Proof. exact segments_open. Qed.

Theorem C10_outline_chained_closed : forall els (start : Point R) body,
  closed_contour els start body ->
  segments els = Some (chain start body ++
    (if pt_neb (contour_end start body) start then [SegLine (mkLine (contour_end start body) start)] else [])).
Proof. exact segments_closed. Qed.

(** Circle: one MoveTo, n >= 4 curves, ClosePath; the last curve ends exactly at the start
    (the last (sin, cos) is forced to (0, 1)); piece i is the cubic from angle (i-1)*2pi/n to i*2pi/n. *)
Theorem C10_outline_chained_circle : forall (c : Circle R) (tol : R),
  exists n arm,
    circle_params (ci_radius c) tol = (n, arm) /\ (4 <= n)%Z /\
    let cx := px (ci_center c) in let cy := py (ci_center c) in
    let r := ci_radius c in let dl := 2 * PI / IZR n in
    let start := mkPoint (cx + r) cy in
    let body := map (circ_el cx cy r arm dl) (zrange1 n) in
    dl * IZR n = 2 * PI /\
    closed_contour (circle_path_elements c tol) start body /\
    length body = Z.to_nat n /\ forallb is_curve body = true /\
    contour_end start body = start /\
    chain start body = map (fun i => SegCubic (circ_cubic cx cy r arm dl i)) (zrange1 n).
Proof. exact circle_contour. Qed.

(** which n and arm length the code picks (the branch at 1/1.9608e-4, the sixth root, the ceiling) *)
Theorem C10_circle_piece_count : forall r tol : R,
  let se := Rabs r / tol in
  exists n arm, circle_params r tol = (n, arm) /\
    ((se < 1 / (19608 / 100000000) /\ n = 4%Z /\ arm = arm4) \/
     (1 / (19608 / 100000000) <= se /\ (5 <= n)%Z /\ arm = 4/3 * tan (PI / 2 / IZR n) /\
      11163 / 10000 * se <= IZR n ^ 6)).
Proof. exact circle_params_spec. Qed.

(** Arc: MoveTo at the start sample, then n curves; the contour ends at the sample of start + sweep *)
Theorem C10_outline_chained_arc : forall (a : Arc R) (tol : R),
  let start := pt_add_v (arc_center a) (sample_ellipse (arc_radii a) (arc_x_rotation a) (arc_start_angle a)) in
  let body := arc_append_elements a tol in
  open_contour (arc_path_elements a tol) start body /\
  forallb is_curve body = true /\
  length body = Z.to_nat (ap_n (arc_params a tol)) /\
  contour_end start body =
    pt_add_v (arc_center a) (sample_ellipse (arc_radii a) (arc_x_rotation a) (arc_start_angle a + arc_sweep_angle a)).
Proof. exact arc_contour. Qed.

(** Ellipse: the full turn of its SVD arc; no ClosePath, but the contour returns to its start *)
Theorem C10_outline_closed_ellipse : forall (e : Ellipse R) (tol : R),
  let a := ellipse_as_arc e in
  let start := pt_add_v (arc_center a) (sample_ellipse (arc_radii a) (arc_x_rotation a) 0) in
  let body := arc_append_elements a tol in
  open_contour (ellipse_path_elements e tol) start body /\
  forallb is_curve body = true /\ (1 <= length body)%nat /\
  contour_end start body = start.
Proof. exact ellipse_contour. Qed.

(** CircleSegment: radial line, outer arc, radial line, reversed inner arc; returns to its start *)
Theorem C10_outline_closed_circle_segment : forall (s : CircleSegment R) (tol : R),
  let c := cs_center s in
  let st := cs_start_angle s in let sw := cs_sweep_angle s in
  let start := point_on_circle c (cs_inner_radius s) st in
  let l1 := point_on_circle c (cs_outer_radius s) st in
  let l2 := point_on_circle c (cs_inner_radius s) (st + sw) in
  let body := LineTo l1 :: arc_append_elements (cs_outer_arc s) tol ++ LineTo l2 :: arc_append_elements (cs_inner_arc s) tol in
  open_contour (circle_segment_path_elements s tol) start body /\
  contour_end l1 (arc_append_elements (cs_outer_arc s) tol) = point_on_circle c (cs_outer_radius s) (st + sw) /\
  contour_end start body = start.
Proof. exact circle_segment_contour. Qed.

(** RoundedRect: closed by ClosePath; every corner arc has at least one piece; the body ends on the
    left edge (x0, y1 - bl), from where ClosePath runs the left edge back to the start (x0, y0 + tl) *)
Theorem C10_outline_closed_rounded_rect : forall (rr : RoundedRect R) (tol : R),
  closed_contour (rounded_rect_path_elements rr tol) (rr_m0 rr) (rr_body rr tol) /\
  (1 <= length (rr_E0 rr tol))%nat /\ (1 <= length (rr_E1 rr tol))%nat /\
  (1 <= length (rr_E2 rr tol))%nat /\ (1 <= length (rr_E3 rr tol))%nat /\
  contour_end (rr_m0 rr) (rr_body rr tol) = rr_q3 rr.
Proof. exact rounded_rect_contour. Qed.

(** * The outline traverses the shape exactly once *)

(** Arc: n >= 1 pieces for a non-zero sweep (none for a zero sweep), n * angle_step = sweep, piece i
    (0-based) spans the eccentric angles start + i*step .. start + (i+1)*step; the arm length is
    (4/3) tan(step/4) with the sign of the sweep. *)
Theorem C10_outline_once_arc : forall (a : Arc R) (tol : R),
  let p := arc_params a tol in
  let n := ap_n p in let step := ap_angle_step p in
  ((0 <= n)%Z /\ (arc_sweep_angle a = 0 -> n = 0%Z) /\ (arc_sweep_angle a <> 0 -> (1 <= n)%Z) /\
   IZR n * step = arc_sweep_angle a /\ ap_arm_len p = 4 / 3 * tan (step / 4)) /\
  arc_append_elements a tol =
  map (arc_el (px (arc_center a)) (py (arc_center a)) (vx (arc_radii a)) (vy (arc_radii a))
              (arc_x_rotation a) (ap_arm_len p) step (arc_start_angle a))
      (seq 0 (Z.to_nat n)).
Proof.
  intros a tol. split.
  - destruct (arc_params_spec a tol) as (H0 & H1 & H2 & H3 & H4 & _). repeat split; assumption.
  - exact (arc_append_ideal a tol).
Qed.

(** (for the circle the same facts are part of [C10_outline_chained_circle]: piece i is
    [circ_cubic .. i], from angle (i-1) dl to i dl, with n dl = 2 pi) *)

(** * End points on the shape, control arms tangent *)
Theorem C10_piece_endpoints_on_shape_circle : forall cx cy r dl i,
  on_circle (mkPoint cx cy) r (circ_pt cx cy r dl i).
Proof. exact circ_pt_on_circle. Qed.

Theorem C10_piece_tangent_circle : forall cx cy r k dl i,
  let p0 := circ_pt cx cy r dl (i - 1) in let p1 := circ_p1 cx cy r k dl i in
  let p2 := circ_p2 cx cy r k dl i in let p3 := circ_pt cx cy r dl i in
  (px p1 - px p0) * (px p0 - cx) + (py p1 - py p0) * (py p0 - cy) = 0 /\
  (px p2 - px p3) * (px p3 - cx) + (py p2 - py p3) * (py p3 - cy) = 0.
Proof. exact circ_arms_tangent. Qed.

(** arc: on-curve points are on the ellipse; both control arms are [arm] times the tangent of the
    parametrisation ([ellipse_tangent] is the derivative of [sample_ellipse] in the angle) *)
Theorem C10_piece_endpoints_and_tangent_arc : forall cx cy rx ry rot arm step a0 (i : nat),
  let c := mkPoint cx cy in let radii := mkVec2 rx ry in
  let th0 := a0 + INR i * step in let th1 := a0 + INR (S i) * step in
  on_ellipse c radii rot (arc_pt cx cy rx ry rot step a0 i) /\
  pt_sub (arc_p1 cx cy rx ry rot arm step a0 i) (arc_pt cx cy rx ry rot step a0 i)
    = s_scale_v arm (ellipse_tangent radii rot th0) /\
  pt_sub (arc_pt cx cy rx ry rot step a0 (S i)) (arc_p2 cx cy rx ry rot arm step a0 i)
    = s_scale_v arm (ellipse_tangent radii rot th1).
Proof. exact arc_pieces_on_shape. Qed.

Theorem C10_ellipse_tangent_is_derivative : forall radii rot th,
  is_derive (fun u => vx (sample_ellipse radii rot u)) th (vx (ellipse_tangent radii rot th)) /\
  is_derive (fun u => vy (sample_ellipse radii rot u)) th (vy (ellipse_tangent radii rot th)).
Proof. exact ellipse_tangent_is_derivative. Qed.

(** * Polygons and Beziers are reproduced verbatim — for every scalar type, so also on binary64 *)
Theorem C10_polygon_shapes_exact : forall (T : Type) (S : Scalar T),
  (forall l : Line T, line_path_elements l = [MoveTo (l0 l); LineTo (l1 l)]) /\
  (forall r : Rect T, rect_path_elements r =
     [MoveTo (mkPoint (rx0 r) (ry0 r)); LineTo (mkPoint (rx1 r) (ry0 r));
      LineTo (mkPoint (rx1 r) (ry1 r)); LineTo (mkPoint (rx0 r) (ry1 r)); ClosePath]) /\
  (forall t : Triangle T, triangle_path_elements t = [MoveTo (tri_a t); LineTo (tri_b t); LineTo (tri_c t); ClosePath]) /\
  (forall q : QuadBez T, quad_path_elements q = [MoveTo (q0 q); QuadTo (q1 q) (q2 q)]) /\
  (forall c : CubicBez T, cubic_path_elements c = [MoveTo (c0 c); CurveTo (c1 c) (c2 c) (c3 c)]) /\
  (forall s : PathSeg T, seg_path_elements s =
     match s with
     | SegLine l => [MoveTo (l0 l); LineTo (l1 l)]
     | SegQuad q => [MoveTo (q0 q); QuadTo (q1 q) (q2 q)]
     | SegCubic c => [MoveTo (c0 c); CurveTo (c1 c) (c2 c) (c3 c)]
     end).
Proof. intros T S. repeat split; intros []; reflexivity. Qed.

(** [path_segments] of a Rect: its four edges in order (three when it is flat, y0 = y1: the closing
    edge would have zero length and [Segments] omits it) *)
Theorem C10_rect_path_segments : forall r : Rect R,
  let p00 := mkPoint (rx0 r) (ry0 r) in let p10 := mkPoint (rx1 r) (ry0 r) in
  let p11 := mkPoint (rx1 r) (ry1 r) in let p01 := mkPoint (rx0 r) (ry1 r) in
  path_segments_of (rect_path_elements r) =
  Some ([SegLine (mkLine p00 p10); SegLine (mkLine p10 p11); SegLine (mkLine p11 p01)]
        ++ (if Reqb (ry0 r) (ry1 r) then [] else [SegLine (mkLine p01 p00)])).
Proof. exact rect_segments_exact. Qed.

(** * Rounded rectangle: order of corners and edges (every scalar type) *)
Theorem C10_rounded_rect_corner_order : forall (T : Type) (S : Scalar T) (rr : RoundedRect T) (tol : T),
  let r := rr_rect rr in let q := rr_radii rr in
  rounded_rect_path_elements rr tol =
  MoveTo (mkPoint (rx0 r) (fadd (ry0 r) (r_top_left q)))
  :: arc_append_elements (rr_corner_arc 2 (mkPoint (fadd (rx0 r) (r_top_left q)) (fadd (ry0 r) (r_top_left q))) (r_top_left q)) tol
  ++ LineTo (mkPoint (fsub (rx1 r) (r_top_right q)) (ry0 r))
  :: arc_append_elements (rr_corner_arc 3 (mkPoint (fsub (rx1 r) (r_top_right q)) (fadd (ry0 r) (r_top_right q))) (r_top_right q)) tol
  ++ LineTo (mkPoint (rx1 r) (fsub (ry1 r) (r_bottom_right q)))
  :: arc_append_elements (rr_corner_arc 0 (mkPoint (fsub (rx1 r) (r_bottom_right q)) (fsub (ry1 r) (r_bottom_right q))) (r_bottom_right q)) tol
  ++ LineTo (mkPoint (fadd (rx0 r) (r_bottom_left q)) (ry1 r))
  :: arc_append_elements (rr_corner_arc 1 (mkPoint (fadd (rx0 r) (r_bottom_left q)) (fsub (ry1 r) (r_bottom_left q))) (r_bottom_left q)) tol
  ++ [ClosePath].
Proof. intros T S. exact (@rounded_rect_elements T S). Qed.

(** each corner arc starts where the previous edge ended and ends where the next edge starts *)
Theorem C10_rounded_rect_corner_joins : forall (rr : RoundedRect R) (tol : R),
  contour_end (rr_m0 rr) (rr_E0 rr tol) = rr_q0 rr /\ contour_end (rr_p1 rr) (rr_E1 rr tol) = rr_q1 rr /\
  contour_end (rr_p2 rr) (rr_E2 rr tol) = rr_q2 rr /\ contour_end (rr_p3 rr) (rr_E3 rr tol) = rr_q3 rr.
Proof. exact rr_corner_ends. Qed.

(** [RoundedRect::from_rect] clamps: the radii it stores are non-negative *)
Theorem C10_rounded_rect_radii_nonneg : forall (rect : Rect R) (radii : RoundedRectRadii R),
  let q := rr_radii (rounded_rect_from_rect rect radii) in
  0 <= r_top_left q /\ 0 <= r_top_right q /\ 0 <= r_bottom_right q /\ 0 <= r_bottom_left q.
Proof. exact from_rect_radii_nonneg. Qed.

(** * The tolerance claim *)

(** the four-piece branch: kurbo's arm 0.551915024494 keeps the unit quarter piece within 1.9608e-4
    of the unit circle (certified enclosure by coq-interval) *)
Theorem C10_circle4_radial_error : forall t, 0 <= t <= 1 ->
  Rabs (sqrt (unit_x arm4 0 1 t ^ 2 + unit_y arm4 0 1 t ^ 2) - 1) <= 19608 / 100000000.
Proof. exact circle4_radial_error. Qed.

(** fixed piece counts, each by its own certified enclosure: the unit piece of angle 2pi/N with arm
    (4/3) tan(pi/(2N)) is within 1.1163 / N^6 of the unit circle *)
Theorem C10_circle_n_radial_error : forall t, 0 <= t <= 1 ->
  unit_radial_error 5 t <= 11163/10000 / 5^6 /\ unit_radial_error 6 t <= 11163/10000 / 6^6 /\
  unit_radial_error 7 t <= 11163/10000 / 7^6 /\ unit_radial_error 8 t <= 11163/10000 / 8^6 /\
  unit_radial_error 9 t <= 11163/10000 / 9^6 /\ unit_radial_error 10 t <= 11163/10000 / 10^6 /\
  unit_radial_error 11 t <= 11163/10000 / 11^6 /\ unit_radial_error 12 t <= 11163/10000 / 12^6 /\
  unit_radial_error 13 t <= 11163/10000 / 13^6 /\ unit_radial_error 14 t <= 11163/10000 / 14^6 /\
  unit_radial_error 15 t <= 11163/10000 / 15^6 /\ unit_radial_error 16 t <= 11163/10000 / 16^6 /\
  unit_radial_error 20 t <= 11163/10000 / 20^6 /\ unit_radial_error 24 t <= 11163/10000 / 24^6 /\
  unit_radial_error 32 t <= 11163/10000 / 32^6 /\ unit_radial_error 48 t <= 11163/10000 / 48^6 /\
  unit_radial_error 64 t <= 11163/10000 / 64^6 /\ unit_radial_error 100 t <= 11163/10000 / 100^6 /\
  unit_radial_error 150 t <= 11163/10000 / 150^6.
Proof.
  intros t Ht. repeat split;
  [ exact (circle_5_radial_error t Ht) | exact (circle_6_radial_error t Ht) | exact (circle_7_radial_error t Ht)
  | exact (circle_8_radial_error t Ht) | exact (circle_9_radial_error t Ht) | exact (circle_10_radial_error t Ht)
  | exact (circle_11_radial_error t Ht) | exact (circle_12_radial_error t Ht) | exact (circle_13_radial_error t Ht)
  | exact (circle_14_radial_error t Ht) | exact (circle_15_radial_error t Ht) | exact (circle_16_radial_error t Ht)
  | exact (circle_20_radial_error t Ht) | exact (circle_24_radial_error t Ht) | exact (circle_32_radial_error t Ht)
  | exact (circle_48_radial_error t Ht) | exact (circle_64_radial_error t Ht) | exact (circle_100_radial_error t Ht)
  | exact (circle_150_radial_error t Ht) ].
Qed.

(** EVERY piece angle: the standard piece of angle 4x (|x| <= 0.3927, which covers every angle
    2pi/n_err with n_err >= 3.999999) with arm (4/3) tan x lies outside the unit circle and within
    Kc x^6 = 1.1163 (2x/pi)^6 of it. In closed form: ||B(t)||^2 - 1 = 64 tan^6 x / (1 + tan^2 x)^2 * g(t)^2,
    g = t (t - 1/2)(t - 1), g^2 <= 1/432; the constant 1.1163 then needs one certified inequality
    ([trig_bound], whose smallest relative margin, at x = pi/8, is 1.1e-5). *)
Theorem C10_std_piece_bound : forall x t, 0 <= t <= 1 -> Rabs x <= 3927/10000 ->
  let k := 4/3 * tan x in
  let W := unit_x k (cos (4*x)) (sin (4*x)) t ^ 2 + unit_y k (cos (4*x)) (sin (4*x)) t ^ 2 in
  1 <= W /\ 1 <= sqrt W <= 1 + Kc * x ^ 6.
Proof. exact std_piece_bound. Qed.

(** Circle, every radius and every tolerance > 0 (so every n the code can pick): each point of the
    outline is within tol of the ideal circle. *)
Theorem C10_circle_within_tolerance : forall (c : Circle R) (tol : R) start body P,
  0 < tol ->
  closed_contour (circle_path_elements c tol) start body ->
  on_outline start body P ->
  Rabs (dist P (ci_center c) - Rabs (ci_radius c)) <= tol.
Proof. exact circle_within_tolerance. Qed.

(** Arc, every non-negative radii, rotation, start, sweep and tolerance > 0: each point of the outline is
    within tol of a point of the ideal ARC (eccentric angle between start and start + sweep). *)
Theorem C10_arc_within_tolerance : forall (a : Arc R) (tol : R) P,
  0 < tol -> 0 <= vx (arc_radii a) -> 0 <= vy (arc_radii a) ->
  on_outline (pt_add_v (arc_center a) (sample_ellipse (arc_radii a) (arc_x_rotation a) (arc_start_angle a)))
             (arc_append_elements a tol) P ->
  within tol (on_arc (arc_center a) (arc_radii a) (arc_x_rotation a) (arc_start_angle a) (arc_sweep_angle a)) P.
Proof. exact arc_within_tolerance_of_arc. Qed.

(** Ellipse: within tol of the ellipse of its SVD radii and rotation ... *)
Theorem C10_ellipse_within_tolerance : forall (e : Ellipse R) (tol : R) P,
  0 < tol ->
  let a := ellipse_as_arc e in
  on_outline (pt_add_v (arc_center a) (sample_ellipse (arc_radii a) (arc_x_rotation a) 0))
             (arc_append_elements a tol) P ->
  within tol (on_ellipse (ellipse_center e) (fst (svd_stable (el_inner e))) (snd (svd_stable (el_inner e)))) P.
Proof. exact ellipse_within_tolerance. Qed.

(** ... which, for an invertible map, is the image of the unit circle under the stored affine map
    (R(theta) diag(rx^2, ry^2) R(theta)^T = A A^T) *)
Theorem C10_ellipse_svd_is_affine_image : forall a b c d e f Q, a * d - b * c <> 0 ->
  let s := svd_stable (mkAffine a b c d e f) in
  on_ellipse (mkPoint e f) (fst s) (snd s) Q <-> on_affine_circle a b c d e f Q.
Proof. exact ellipse_svd_same_set. Qed.

Theorem C10_ellipse_within_tolerance_of_affine_image : forall a b c d e f (tol : R) P,
  0 < tol -> a * d - b * c <> 0 ->
  let el := mkEllipse (mkAffine a b c d e f) in
  let arc := ellipse_as_arc el in
  on_outline (pt_add_v (arc_center arc) (sample_ellipse (arc_radii arc) (arc_x_rotation arc) 0))
             (arc_append_elements arc tol) P ->
  within tol (on_affine_circle a b c d e f) P.
Proof. exact ellipse_within_tolerance_of_affine_image. Qed.

(** the repaired minor-radius formula (proposed_fixes/C10-svd-minor-radius.diff) is the pinned one over
    the reals: the defect it repairs is purely one of binary64 cancellation *)
Theorem C10_svd_repair_is_neutral_over_reals : forall a b c d e f : R,
  svd_stable (mkAffine a b c d e f) = aff_svd (mkAffine a b c d e f).
Proof. exact svd_stable_eq_aff_svd. Qed.

(** RoundedRect: each outline point is within tol of its own corner's ideal quarter arc, or exactly on
    the ideal straight edge between two corners (the fourth, left, edge is drawn by ClosePath) *)
Theorem C10_rounded_rect_within_tolerance : forall (rr : RoundedRect R) (tol : R) P,
  let tl := r_top_left (rr_radii rr) in let tr := r_top_right (rr_radii rr) in
  let br := r_bottom_right (rr_radii rr) in let bl := r_bottom_left (rr_radii rr) in
  0 < tol -> 0 <= tl -> 0 <= tr -> 0 <= br -> 0 <= bl ->
  on_outline (rr_m0 rr) (rr_body rr tol) P ->
  within tol (on_arc (rr_c0 rr) (mkVec2 tl tl) 0 (PI / 2 * 2) (PI / 2)) P \/ on_segment (rr_q0 rr) (rr_p1 rr) P \/
  within tol (on_arc (rr_c1 rr) (mkVec2 tr tr) 0 (PI / 2 * 3) (PI / 2)) P \/ on_segment (rr_q1 rr) (rr_p2 rr) P \/
  within tol (on_arc (rr_c2 rr) (mkVec2 br br) 0 (PI / 2 * 0) (PI / 2)) P \/ on_segment (rr_q2 rr) (rr_p3 rr) P \/
  within tol (on_arc (rr_c3 rr) (mkVec2 bl bl) 0 (PI / 2 * 1) (PI / 2)) P.
Proof. exact rounded_rect_within_tolerance. Qed.

(** CircleSegment: exactly on a radial line, or within tol of the outer / the reversed inner ideal arc *)
Theorem C10_circle_segment_within_tolerance : forall (s : CircleSegment R) (tol : R) P,
  0 < tol -> 0 <= cs_outer_radius s -> 0 <= cs_inner_radius s ->
  let c := cs_center s in
  let st := cs_start_angle s in let sw := cs_sweep_angle s in
  let ro := cs_outer_radius s in let ri := cs_inner_radius s in
  let start := point_on_circle c ri st in
  let body := LineTo (point_on_circle c ro st) :: arc_append_elements (cs_outer_arc s) tol
              ++ LineTo (point_on_circle c ri (st + sw)) :: arc_append_elements (cs_inner_arc s) tol in
  on_outline start body P ->
  on_segment (point_on_circle c ri st) (point_on_circle c ro st) P \/
  within tol (on_arc c (mkVec2 ro ro) 0 st sw) P \/
  on_segment (point_on_circle c ro (st + sw)) (point_on_circle c ri (st + sw)) P \/
  within tol (on_arc c (mkVec2 ri ri) 0 (st + sw) (- sw)) P.
Proof. exact circle_segment_within_tolerance. Qed.

(** * The whole property at the real level *)

(** [C10_full]: the property text, for the code run in exact arithmetic, with the quantifier's
    guards (tolerance > 0, non-negative radii). Proved below. What is NOT covered by any theorem
    here: binary64 rounding (including the cancellation in [Affine::svd], finding
    C10-svd-minor-radius), the degenerate (non-invertible) ellipse's relation to its affine image,
    and "exactly once" in a topological sense (it is stated as the angular tiling of
    [C10_outline_once_arc] / [C10_outline_chained_circle]). *)
Definition C10_full : Prop :=
  (forall (c : Circle R) (tol : R) start body P, 0 < tol ->
     closed_contour (circle_path_elements c tol) start body -> on_outline start body P ->
     Rabs (dist P (ci_center c) - Rabs (ci_radius c)) <= tol) /\
  (forall (a : Arc R) (tol : R) P, 0 < tol -> 0 <= vx (arc_radii a) -> 0 <= vy (arc_radii a) ->
     on_outline (pt_add_v (arc_center a) (sample_ellipse (arc_radii a) (arc_x_rotation a) (arc_start_angle a)))
                (arc_append_elements a tol) P ->
     within tol (on_arc (arc_center a) (arc_radii a) (arc_x_rotation a) (arc_start_angle a) (arc_sweep_angle a)) P) /\
  (forall a b c d e f (tol : R) P, 0 < tol -> a * d - b * c <> 0 ->
     let arc := ellipse_as_arc (mkEllipse (mkAffine a b c d e f)) in
     on_outline (pt_add_v (arc_center arc) (sample_ellipse (arc_radii arc) (arc_x_rotation arc) 0))
                (arc_append_elements arc tol) P ->
     within tol (on_affine_circle a b c d e f) P) /\
  (forall (e : Ellipse R) (tol : R),
     let a := ellipse_as_arc e in
     let start := pt_add_v (arc_center a) (sample_ellipse (arc_radii a) (arc_x_rotation a) 0) in
     contour_end start (arc_append_elements a tol) = start) /\
  (forall (rr : RoundedRect R) (tol : R),
     closed_contour (rounded_rect_path_elements rr tol) (rr_m0 rr) (rr_body rr tol)) /\
  (forall (s : CircleSegment R) (tol : R),
     let start := point_on_circle (cs_center s) (cs_inner_radius s) (cs_start_angle s) in
     exists body, open_contour (circle_segment_path_elements s tol) start body /\ contour_end start body = start).

Theorem C10_full_at_the_real_level : C10_full.
Proof.
  split; [exact circle_within_tolerance|]. split; [exact arc_within_tolerance_of_arc|].
  split; [exact ellipse_within_tolerance_of_affine_image|].
  split; [intros e tol; exact (proj2 (proj2 (proj2 (ellipse_contour e tol))))|].
  split; [intros rr tol; exact (proj1 (rounded_rect_contour rr tol))|].
  intros s tol start. eexists. destruct (circle_segment_contour s tol) as (H1 & _ & H3). split; [exact H1 | exact H3].
Qed.

(** * Non-vacuity *)
Example C10_ex_branch4 : circle_params 1 (1 / 10) = (4%Z, arm4).
Proof. exact circle_example_4. Qed.
Example C10_ex_eleven_pieces : fst (circle_params 1000 (1 / 1000)) = 11%Z.
Proof. exact circle_example_11. Qed.
Example C10_ex_circle_outline_inhabited : forall (c : Circle R) (tol : R),
  exists start body P, closed_contour (circle_path_elements c tol) start body /\ on_outline start body P.
Proof. exact circle_outline_nonempty. Qed.
Example C10_ex_arc_outline_inhabited :
  let a := mkArc (mkPoint 0 0) (mkVec2 2 1) 0 1 0 in
  exists P, on_outline (pt_add_v (arc_center a) (sample_ellipse (arc_radii a) (arc_x_rotation a) (arc_start_angle a)))
                       (arc_append_elements a (1 / 100)) P.
Proof. exact arc_example_nonempty. Qed.
