(** C19 — results do not depend on the floating-point backend.
    What a theorem can carry here (see docs/C19.md): the backend is selected by the
    [define_float_funcs!] table in common.rs. That table is regenerated from the Rust source on
    every check (tools/c19_gen.py) and decided by [table_ok]; the theorems below say what passing
    that decision means. Numerical agreement of the `libm` crate with the platform's libm is
    outside any Gallina model and is covered by the two-build correspondence only. *)
From Coq Require Import ZArith List Bool String Floats.
From KV Require Import Scalar F64 RInst Libm C19_proofs.
Import ListNotations.
Local Open Scope string_scope.

(** For EVERY scalar instance (so for the reals and for binary64 alike): if the table found in the
    source passes the decision, then each of the 20 methods the crate needs is implemented by the libm
    function of the same meaning, called with [self] first and the arguments in declaration order. *)
Theorem C19_libm_mapping_ok : forall (T : Type) (S : Scalar T) sh sg (t : list entry),
  table_ok sh sg t = true ->
  forall m (a r : list T), In m required_methods ->
  method_sem m a = Some r -> backend_eval sh t m a = Some r.
Proof. intros T S. exact (@backend_agrees T S). Qed.

(** the macro's hand-written signum is the standard library's, on every binary64 value *)
Theorem C19_signum_equiv : forall x : float,
  F.signum x = if PrimFloat.is_nan x then nan else if PrimFloat.get_sign x then (-1)%float else 1%float.
Proof. exact signum_equiv. Qed.

(** non-vacuity: the reference table satisfies the hypothesis; the mutations the property text names
    (a swapped mapping, swapped argument order, a dropped entry, a signum without its NaN guard)
    do not *)
Example C19_reference_table_passes : table_ok good_shape good_signum spec_table = true.
Proof. exact spec_table_passes. Qed.
Example C19_swapped_mapping_rejected : table_ok good_shape good_signum (map swap_sin_cos spec_table) = false.
Proof. exact swapped_mapping_rejected. Qed.
Example C19_args_out_of_order_rejected : table_ok (mkShape true false true true) good_signum spec_table = false.
Proof. exact args_out_of_order_rejected. Qed.
Example C19_missing_entry_rejected : table_ok good_shape good_signum (tl spec_table) = false.
Proof. exact missing_entry_rejected. Qed.
Example C19_signum_without_nan_guard_rejected : table_ok good_shape (mkSignum false true) spec_table = false.
Proof. exact signum_without_nan_guard_rejected. Qed.
