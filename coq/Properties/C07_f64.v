(** C07 on binary64 — the element/segment coherence theorems for the [F64] instance of model/Path.v and
    model/PathOps.v ([segments], [get_seg_req], [from_path_segments]: the functions the correspondence check
    executes). Rust's [Point == Point] is [PrimFloat.eqb] on both coordinates ([pt_eqb], Geom.v): NaN <> NaN and
    -0 = +0, so it is not Leibniz equality on all of binary64. Two formulations, statements only:

    (1) CANONICAL coordinates — every coordinate is neither NaN nor -0 ([canonb x = true]; +0, subnormals,
        both infinities allowed): the theorems hold with Leibniz (bit-for-bit) equality of segments, exactly as
        at the real instance.
    (2) NON-NaN coordinates (-0 allowed): the theorems hold up to numerical equality of coordinates — stated
        as equality of the images under [xv] (non-NaN binary64 -> reals, monotone, [xv x = xv y <-> F.same x y]).
    NOT covered: paths with a NaN coordinate (a NaN point differs from itself: [C07_f64_nan_closepath]).
    With -0 bit-level equality genuinely fails ([C07_f64_negzero_*]).
    Not restated here (they follow from the same transport, proofs/C07_f64_proofs.v): reversal, builder. *)
From Coq Require Import ZArith Reals Bool List Floats.
From KV Require Import Scalar RInst F64 Geom Curves Path PathOps PathSpec F64_exact C07_f64_proofs.
Import ListNotations.

Notation El := (PathEl pfloat).
Notation Seg := (PathSeg pfloat).

Theorem C07_f64_vocabulary : forall (x y : pfloat) (p : Point pfloat),
  (canon x <-> negb (PrimFloat.is_nan x) && negb (PrimFloat.is_zero x && PrimFloat.get_sign x) = true) /\
  (canon x -> canon y -> (PrimFloat.eqb x y = true <-> x = y)) /\
  (canon_pt p <-> canon (px p) /\ canon (py p)) /\
  (nn_pt p <-> PrimFloat.is_nan (px p) = false /\ PrimFloat.is_nan (py p) = false) /\
  (nn x -> nn y -> (xv x = xv y <-> F.same x y = true)).
Proof. exact vocabulary. Qed.

(** ** (1) canonical coordinates: bit-for-bit *)
Theorem C07_f64_get_seg_spec : forall els : list El, Forall canon_el els -> starts_with_moveto els ->
  exists outs, outs_from None els = Some outs /\
               segments els = Some (cat_somes outs) /\
               length outs = length els /\
               forall i, get_seg_req els i = nth i outs None.
Proof. exact f_get_seg_req_spec. Qed.

Theorem C07_f64_closepath_line_iff : forall pre post : list El,
  Forall canon_el pre -> Forall canon_el post -> starts_with_moveto pre ->
  exists start cur outs,
    cur_start pre = Some start /\ cur_point pre = Some cur /\
    outs_from None (pre ++ ClosePath :: post) = Some outs /\
    (cur <> start -> nth (length pre) outs None = Some (SegLine (mkLine cur start))) /\
    (cur = start -> nth (length pre) outs None = None) /\
    (pt_eqb cur start = false <-> cur <> start) /\
    cur_point (pre ++ [ClosePath]) = Some start.
Proof. exact f_closepath_line_iff. Qed.

Theorem C07_f64_rebuild_segments : forall (els : list El) (segs : list Seg), Forall canon_el els ->
  segments els = Some segs -> Forall canon_seg segs /\ segments (from_path_segments segs) = Some segs.
Proof. exact f_rebuild_segments. Qed.

Theorem C07_f64_rebuild_segments_any : forall segs : list Seg, Forall canon_seg segs ->
  segments (from_path_segments segs) = Some segs.
Proof. exact f_rebuild_segments_any. Qed.

(** ** (2) non-NaN coordinates: up to numerical equality *)
Theorem C07_f64_get_seg_spec_nonnan : forall els : list El, Forall nn_el els -> starts_with_moveto els ->
  exists outs, outs_from None els = Some outs /\
               segments els = Some (cat_somes outs) /\
               length outs = length els /\
               forall i, option_map (mS xv) (get_seg_req els i) = option_map (mS xv) (nth i outs None).
Proof. exact f_get_seg_req_spec_nn. Qed.

Theorem C07_f64_rebuild_segments_nonnan : forall segs : list Seg, Forall nn_seg segs ->
  option_map (map (mS xv)) (segments (from_path_segments segs)) = Some (map (mS xv) segs).
Proof. exact f_rebuild_segments_nn. Qed.

(** ** witnesses on binary64 *)
(** non-vacuity: a path with +0, the smallest subnormal, an infinity and the largest finite number, closed
    twice and continued after a ClosePath, is canonical and starts with MoveTo *)
Example C07_f64_hyps_satisfiable : Forall canon_el fpath /\ starts_with_moveto fpath.
Proof. exact fpath_canon. Qed.

(** -0: M(+0,0) L(1,0) L(-0,0) Z L(2,2). [segments] continues from (-0,0) after the (suppressed) closing
    line, [get_seg] from the sub-path start (+0,0): numerically equal, different bits *)
Example C07_f64_negzero_get_seg :
  exists outs, outs_from None zpath = Some outs /\
    seg_start_x (nth 4 outs None) = (-0)%float /\ seg_start_x (get_seg_req zpath 4) = 0%float /\
    F.same (seg_start_x (nth 4 outs None)) (seg_start_x (get_seg_req zpath 4)) = true /\
    F.same_bits (seg_start_x (nth 4 outs None)) (seg_start_x (get_seg_req zpath 4)) = false.
Proof. exact zpath_negzero. Qed.
(** -0: rebuilding [(1,1)->(-0,0); (+0,0)->(2,2)] inserts no MoveTo and the second segment then starts at -0 *)
Example C07_f64_negzero_rebuild :
  exists segs', segments (from_path_segments zsegs) = Some segs' /\
    seg_start_x (nth_error segs' 1) = (-0)%float /\ seg_start_x (nth_error zsegs 1) = 0%float /\
    length (from_path_segments zsegs) = 3%nat.
Proof. exact zsegs_negzero. Qed.
(** NaN: a ClosePath right after a MoveTo to a NaN point emits a closing line *)
Example C07_f64_nan_closepath :
  segments [MoveTo (mkPoint nan 0%float); ClosePath]
  = Some [SegLine (mkLine (mkPoint nan 0%float) (mkPoint nan 0%float))].
Proof. exact nan_closepath. Qed.
